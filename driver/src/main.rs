// mirdump: rustc_private fact extractor (engine E1).
//
// Injected with RUSTC_WORKSPACE_WRAPPER under `cargo +nightly check`.  For the crate named by
// MIRDUMP_CRATE (default "softposit") it writes one JSON document with the MIR of every body,
// resolved callees, evaluated constants, ADT definitions, impl table and type aliases to the file
// named by MIRDUMP_OUT.  It never runs the crate's code.
#![feature(rustc_private)]
#![allow(clippy::all)]

extern crate rustc_abi;
extern crate rustc_driver;
extern crate rustc_hir;
extern crate rustc_interface;
extern crate rustc_middle;
extern crate rustc_span;

use rustc_driver::{Callbacks, Compilation};
use rustc_hir::def::DefKind;
use rustc_hir::def_id::{DefId, LOCAL_CRATE};
use rustc_interface::interface::Compiler;
use rustc_middle::mir::{self, *};
use rustc_middle::ty::print::with_no_trimmed_paths;
use rustc_middle::ty::{self, GenericArgKind, GenericArgsRef, Ty, TyCtxt, TypingEnv, TypeVisitableExt};
use std::collections::BTreeMap;
use std::fmt::Write as _;

fn q(s: &str) -> String {
    let mut o = String::with_capacity(s.len() + 2);
    o.push('"');
    for c in s.chars() {
        match c {
            '"' => o.push_str("\\\""),
            '\\' => o.push_str("\\\\"),
            '\n' => o.push_str("\\n"),
            '\r' => o.push_str("\\r"),
            '\t' => o.push_str("\\t"),
            c if (c as u32) < 0x20 => {
                let _ = write!(o, "\\u{:04x}", c as u32);
            }
            c => o.push(c),
        }
    }
    o.push('"');
    o
}

fn arr(v: &[String]) -> String {
    format!("[{}]", v.join(","))
}

struct Cx<'tcx> {
    tcx: TyCtxt<'tcx>,
    types: BTreeMap<String, String>,
}

impl<'tcx> Cx<'tcx> {
    fn path(&self, did: DefId) -> String {
        with_no_trimmed_paths!(self.tcx.def_path_str(did))
    }

    fn span(&self, sp: rustc_span::Span) -> String {
        let sm = self.tcx.sess.source_map();
        let lo = sm.lookup_char_pos(sp.lo());
        let name = format!("{}", lo.file.name.prefer_local_unconditionally());
        format!("{}:{}", name, lo.line)
    }

    fn ty_const(&self, c: ty::Const<'tcx>) -> String {
        match c.kind() {
            ty::ConstKind::Param(p) => format!("{{\"param\":{}}}", q(p.name.as_str())),
            ty::ConstKind::Value(v) => {
                if let Some(si) = v.try_to_leaf() {
                    let size = si.size();
                    let bits = si.to_bits(size);
                    let signed = matches!(v.ty.kind(), ty::Int(_));
                    let val: String = if signed {
                        format!("{}", size.sign_extend(bits) as i128)
                    } else {
                        format!("{}", bits)
                    };
                    format!("{{\"v\":{}}}", val)
                } else {
                    format!("{{\"s\":{}}}", q(&format!("{:?}", c)))
                }
            }
            _ => format!("{{\"s\":{}}}", q(&with_no_trimmed_paths!(format!("{}", c)))),
        }
    }

    fn generic_args(&mut self, args: GenericArgsRef<'tcx>) -> String {
        let mut v = vec![];
        for a in args.iter() {
            match a.kind() {
                GenericArgKind::Type(t) => {
                    let k = self.ty(t);
                    v.push(format!("{{\"ty\":{}}}", q(&k)));
                }
                GenericArgKind::Const(c) => v.push(self.ty_const(c)),
                GenericArgKind::Lifetime(_) => v.push("{\"lt\":1}".to_string()),
            }
        }
        arr(&v)
    }

    // Returns the key of the type in the type table.
    fn ty(&mut self, t: Ty<'tcx>) -> String {
        let key = with_no_trimmed_paths!(format!("{}", t));
        if self.types.contains_key(&key) {
            return key;
        }
        self.types.insert(key.clone(), "null".to_string());
        let tcx = self.tcx;
        let js = match *t.kind() {
            ty::Bool => "{\"k\":\"bool\"}".to_string(),
            ty::Char => "{\"k\":\"char\"}".to_string(),
            ty::Int(i) => format!(
                "{{\"k\":\"int\",\"signed\":true,\"bits\":{}}}",
                i.bit_width().unwrap_or(64)
            ),
            ty::Uint(u) => format!(
                "{{\"k\":\"int\",\"signed\":false,\"bits\":{}}}",
                u.bit_width().unwrap_or(64)
            ),
            ty::Float(f) => format!("{{\"k\":\"float\",\"bits\":{}}}", f.bit_width()),
            ty::Never => "{\"k\":\"never\"}".to_string(),
            ty::Str => "{\"k\":\"str\"}".to_string(),
            ty::Tuple(ts) => {
                let v: Vec<String> = ts.iter().map(|x| q(&self.ty(x))).collect();
                let lay = self.layout(t);
                format!("{{\"k\":\"tuple\",\"elems\":{}{}}}", arr(&v), lay)
            }
            ty::Array(e, n) => {
                let ek = self.ty(e);
                let lay = self.layout(t);
                format!("{{\"k\":\"array\",\"elem\":{},\"len\":{}{}}}", q(&ek), self.ty_const(n), lay)
            }
            ty::Slice(e) => {
                let ek = self.ty(e);
                format!("{{\"k\":\"slice\",\"elem\":{}}}", q(&ek))
            }
            ty::Ref(_, inner, m) => {
                let ik = self.ty(inner);
                format!("{{\"k\":\"ref\",\"mut\":{},\"to\":{}}}", m.is_mut(), q(&ik))
            }
            ty::RawPtr(inner, m) => {
                let ik = self.ty(inner);
                format!("{{\"k\":\"ptr\",\"mut\":{},\"to\":{}}}", m.is_mut(), q(&ik))
            }
            ty::Param(p) => format!("{{\"k\":\"param\",\"name\":{}}}", q(p.name.as_str())),
            ty::FnDef(did, args) => {
                let ga = self.generic_args(args);
                format!("{{\"k\":\"fndef\",\"path\":{},\"args\":{}}}", q(&self.path(did)), ga)
            }
            ty::FnPtr(..) => "{\"k\":\"fnptr\"}".to_string(),
            ty::Closure(did, args) => {
                let ups: Vec<String> =
                    args.as_closure().upvar_tys().iter().map(|x| q(&self.ty(x))).collect();
                format!(
                    "{{\"k\":\"closure\",\"path\":{},\"upvars\":{}}}",
                    q(&self.path(did)),
                    arr(&ups)
                )
            }
            ty::Adt(def, args) => {
                let ga = self.generic_args(args);
                let kind = if def.is_struct() {
                    "struct"
                } else if def.is_enum() {
                    "enum"
                } else {
                    "union"
                };
                let mut vars = vec![];
                // only expand fields for local ADTs and a few core ones we model (Option, Result, Ordering, Range)
                let p = self.path(def.did());
                let expand = def.did().is_local()
                    || p.starts_with("core::option::Option")
                    || p.starts_with("core::result::Result")
                    || p.starts_with("core::cmp::Ordering")
                    || p.starts_with("core::ops::Range")
                    || p.starts_with("core::num::FpCategory");
                if expand {
                    for v in def.variants().iter() {
                        let mut fs = vec![];
                        for f in v.fields.iter() {
                            let ft = f.ty(tcx, args);
                            let fk = self.ty(ft);
                            fs.push(format!("{{\"name\":{},\"ty\":{}}}", q(f.name.as_str()), q(&fk)));
                        }
                        let discr = if def.is_enum() {
                            let vi = def.variant_index_with_id(v.def_id);
                            format!("{}", def.discriminant_for_variant(tcx, vi).val)
                        } else {
                            "0".to_string()
                        };
                        vars.push(format!(
                            "{{\"name\":{},\"discr\":{},\"fields\":{}}}",
                            q(v.name.as_str()),
                            discr,
                            arr(&fs)
                        ));
                    }
                }
                let lay = self.layout(t);
                format!(
                    "{{\"k\":\"adt\",\"adt\":{},\"path\":{},\"args\":{},\"local\":{},\"transparent\":{},\"variants\":{}{}}}",
                    q(kind),
                    q(&p),
                    ga,
                    def.did().is_local(),
                    def.repr().transparent(),
                    arr(&vars),
                    lay
                )
            }
            ty::Alias(..) => format!("{{\"k\":\"alias\",\"s\":{}}}", q(&key)),
            ty::Dynamic(..) => "{\"k\":\"dyn\"}".to_string(),
            _ => format!("{{\"k\":\"other\",\"s\":{}}}", q(&key)),
        };
        self.types.insert(key.clone(), js);
        key
    }

    // ",\"size\":N,\"offsets\":[..]" when the layout is computable for a closed type
    fn layout(&self, t: Ty<'tcx>) -> String {
        if t.has_non_region_param() || t.has_aliases() {
            return String::new();
        }
        let env = TypingEnv::fully_monomorphized();
        match self.tcx.layout_of(env.as_query_input(t)) {
            Ok(l) => {
                let n = l.fields.count();
                let mut offs = vec![];
                if !matches!(l.fields, rustc_abi::FieldsShape::Array { .. }) {
                    for i in 0..n {
                        offs.push(format!("{}", l.fields.offset(i).bytes()));
                    }
                }
                format!(",\"size\":{},\"offsets\":{}", l.size.bytes(), arr(&offs))
            }
            Err(_) => String::new(),
        }
    }

    fn place(&mut self, p: &Place<'tcx>) -> String {
        let mut pr = vec![];
        for e in p.projection.iter() {
            pr.push(match e {
                ProjectionElem::Deref => "\"deref\"".to_string(),
                ProjectionElem::Field(f, _) => format!("{{\"f\":{}}}", f.as_usize()),
                ProjectionElem::Index(l) => format!("{{\"idx\":{}}}", l.as_usize()),
                ProjectionElem::ConstantIndex { offset, min_length, from_end } => format!(
                    "{{\"cidx\":{},\"min\":{},\"from_end\":{}}}",
                    offset, min_length, from_end
                ),
                ProjectionElem::Subslice { from, to, from_end } => {
                    format!("{{\"sub\":[{},{}],\"from_end\":{}}}", from, to, from_end)
                }
                ProjectionElem::Downcast(_, v) => format!("{{\"down\":{}}}", v.as_usize()),
                ProjectionElem::OpaqueCast(_) => "\"opaque\"".to_string(),
                ProjectionElem::UnwrapUnsafeBinder(_) => "\"unwrapbinder\"".to_string(),
            });
        }
        format!("{{\"l\":{},\"p\":{}}}", p.local.as_usize(), arr(&pr))
    }

    fn scalar_json(&self, bits: u128, size_bytes: u64, ty: Ty<'tcx>) -> String {
        let signed = matches!(ty.kind(), ty::Int(_));
        if signed && size_bytes > 0 {
            let sz = rustc_abi::Size::from_bytes(size_bytes);
            format!("{}", sz.sign_extend(bits) as i128)
        } else {
            format!("{}", bits)
        }
    }

    fn const_value(&mut self, cv: ConstValue, ty: Ty<'tcx>) -> String {
        let tk = self.ty(ty);
        match cv {
            ConstValue::Scalar(s) => match s {
                mir::interpret::Scalar::Int(si) => {
                    let size = si.size();
                    let bits = si.to_bits(size);
                    format!(
                        "{{\"ty\":{},\"scalar\":{},\"ubits\":{},\"size\":{}}}",
                        q(&tk),
                        self.scalar_json(bits, size.bytes(), ty),
                        bits,
                        size.bytes()
                    )
                }
                mir::interpret::Scalar::Ptr(p, _) => {
                    // pointer to a static/const allocation (e.g. &[T; N] table or &str)
                    let (prov, off) = p.into_raw_parts();
                    let aid = prov.alloc_id();
                    let mut extra = String::new();
                    if let Some(ga) = self.tcx.try_get_global_alloc(aid) {
                        match ga {
                            mir::interpret::GlobalAlloc::Memory(a) => {
                                let a = a.inner();
                                let len = a.len();
                                let bytes = a.inspect_with_uninit_and_ptr_outside_interpreter(0..len);
                                let hex: String = bytes.iter().map(|b| format!("{:02x}", b)).collect();
                                extra = format!(",\"bytes\":{}", q(&hex));
                            }
                            mir::interpret::GlobalAlloc::Static(did) => {
                                extra = format!(",\"static\":{}", q(&self.path(did)));
                            }
                            _ => {}
                        }
                    }
                    format!("{{\"ty\":{},\"ptr\":true,\"off\":{}{}}}", q(&tk), off.bytes(), extra)
                }
            },
            ConstValue::ZeroSized => format!("{{\"ty\":{},\"zst\":true}}", q(&tk)),
            ConstValue::Slice { alloc_id, meta } => {
                let a = self.tcx.global_alloc(alloc_id).unwrap_memory();
                let a = a.inner();
                let len = a.len();
                let bytes = a.inspect_with_uninit_and_ptr_outside_interpreter(0..len);
                let hex: String = bytes.iter().map(|b| format!("{:02x}", b)).collect();
                format!("{{\"ty\":{},\"slice\":{},\"meta\":{}}}", q(&tk), q(&hex), meta)
            }
            ConstValue::Indirect { alloc_id, offset } => {
                let a = self.tcx.global_alloc(alloc_id).unwrap_memory();
                let a = a.inner();
                let len = a.len();
                let bytes = a.inspect_with_uninit_and_ptr_outside_interpreter(0..len);
                let hex: String = bytes.iter().map(|b| format!("{:02x}", b)).collect();
                format!("{{\"ty\":{},\"bytes\":{},\"off\":{}}}", q(&tk), q(&hex), offset.bytes())
            }
        }
    }

    fn mir_const(&mut self, c: &mir::Const<'tcx>, env: TypingEnv<'tcx>) -> String {
        let tcx = self.tcx;
        let ty = c.ty();
        // function items first
        if let ty::FnDef(did, args) = *ty.kind() {
            let tk = self.ty(ty);
            let ga = self.generic_args(args);
            return format!("{{\"ty\":{},\"fn\":{},\"args\":{}}}", q(&tk), q(&self.path(did)), ga);
        }
        match *c {
            mir::Const::Val(cv, ty) => self.const_value(cv, ty),
            mir::Const::Ty(ty, ct) => {
                let tk = self.ty(ty);
                match ct.kind() {
                    ty::ConstKind::Param(p) => {
                        format!("{{\"ty\":{},\"param\":{}}}", q(&tk), q(p.name.as_str()))
                    }
                    ty::ConstKind::Value(v) => {
                        if let Some(si) = v.try_to_leaf() {
                            let size = si.size();
                            let bits = si.to_bits(size);
                            format!(
                                "{{\"ty\":{},\"scalar\":{},\"ubits\":{},\"size\":{}}}",
                                q(&tk),
                                self.scalar_json(bits, size.bytes(), ty),
                                bits,
                                size.bytes()
                            )
                        } else {
                            format!("{{\"ty\":{},\"opaque\":{}}}", q(&tk), q(&format!("{:?}", ct)))
                        }
                    }
                    _ => format!("{{\"ty\":{},\"opaque\":{}}}", q(&tk), q(&format!("{:?}", ct))),
                }
            }
            mir::Const::Unevaluated(uv, ty) => {
                // try to evaluate when closed
                let closed = !uv.args.iter().any(|a| match a.kind() {
                    GenericArgKind::Type(t) => t.has_non_region_param(),
                    GenericArgKind::Const(c) => c.has_non_region_param(),
                    _ => false,
                });
                if closed {
                    if let Ok(cv) = c.eval(tcx, env, rustc_span::DUMMY_SP) {
                        let mut s = self.const_value(cv, ty);
                        // annotate the origin
                        let origin = format!(
                            ",\"origin\":{},\"promoted\":{}}}",
                            q(&self.path(uv.def)),
                            uv.promoted.map(|p| p.as_usize() as i64).unwrap_or(-1)
                        );
                        s.pop();
                        s.push_str(&origin);
                        return s;
                    }
                }
                let tk = self.ty(ty);
                let ga = self.generic_args(uv.args);
                format!(
                    "{{\"ty\":{},\"uneval\":{},\"args\":{},\"promoted\":{}}}",
                    q(&tk),
                    q(&self.path(uv.def)),
                    ga,
                    uv.promoted.map(|p| p.as_usize() as i64).unwrap_or(-1)
                )
            }
        }
    }

    fn operand(&mut self, o: &Operand<'tcx>, env: TypingEnv<'tcx>) -> String {
        match o {
            Operand::Copy(p) => format!("{{\"copy\":{}}}", self.place(p)),
            Operand::Move(p) => format!("{{\"move\":{}}}", self.place(p)),
            Operand::Constant(c) => format!("{{\"const\":{}}}", self.mir_const(&c.const_, env)),
            Operand::RuntimeChecks(_) => "{\"const\":{\"ty\":\"bool\",\"scalar\":0,\"ubits\":0,\"size\":1,\"runtime_check\":true}}".to_string(),
        }
    }

    fn rvalue(&mut self, rv: &Rvalue<'tcx>, env: TypingEnv<'tcx>) -> String {
        match rv {
            Rvalue::Use(o, _) => format!("{{\"rv\":\"use\",\"op\":{}}}", self.operand(o, env)),
            Rvalue::Repeat(o, n) => format!(
                "{{\"rv\":\"repeat\",\"op\":{},\"n\":{}}}",
                self.operand(o, env),
                self.ty_const(*n)
            ),
            Rvalue::Ref(_, bk, p) => format!(
                "{{\"rv\":\"ref\",\"mut\":{},\"place\":{}}}",
                matches!(bk, BorrowKind::Mut { .. }),
                self.place(p)
            ),
            Rvalue::ThreadLocalRef(_) => "{\"rv\":\"tls\"}".to_string(),
            Rvalue::RawPtr(_, p) => format!("{{\"rv\":\"rawptr\",\"place\":{}}}", self.place(p)),
            Rvalue::Cast(k, o, t) => {
                let tk = self.ty(*t);
                format!(
                    "{{\"rv\":\"cast\",\"kind\":{},\"op\":{},\"ty\":{}}}",
                    q(&format!("{:?}", k)),
                    self.operand(o, env),
                    q(&tk)
                )
            }
            Rvalue::BinaryOp(op, ab) => format!(
                "{{\"rv\":\"bin\",\"op\":{},\"a\":{},\"b\":{}}}",
                q(&format!("{:?}", op)),
                self.operand(&ab.0, env),
                self.operand(&ab.1, env)
            ),
            Rvalue::UnaryOp(op, o) => format!(
                "{{\"rv\":\"un\",\"op\":{},\"a\":{}}}",
                q(&format!("{:?}", op)),
                self.operand(o, env)
            ),
            Rvalue::Discriminant(p) => format!("{{\"rv\":\"discr\",\"place\":{}}}", self.place(p)),
            Rvalue::Aggregate(k, ops) => {
                let v: Vec<String> = ops.iter().map(|o| self.operand(o, env)).collect();
                let kind = match **k {
                    AggregateKind::Array(t) => {
                        let tk = self.ty(t);
                        format!("{{\"agg\":\"array\",\"elem\":{}}}", q(&tk))
                    }
                    AggregateKind::Tuple => "{\"agg\":\"tuple\"}".to_string(),
                    AggregateKind::Adt(did, vi, args, _, active) => {
                        let ga = self.generic_args(args);
                        format!(
                            "{{\"agg\":\"adt\",\"path\":{},\"variant\":{},\"args\":{},\"active\":{}}}",
                            q(&self.path(did)),
                            vi.as_usize(),
                            ga,
                            active.map(|f| f.as_usize() as i64).unwrap_or(-1)
                        )
                    }
                    AggregateKind::Closure(did, _) => {
                        format!("{{\"agg\":\"closure\",\"path\":{}}}", q(&self.path(did)))
                    }
                    AggregateKind::RawPtr(..) => "{\"agg\":\"rawptr\"}".to_string(),
                    _ => "{\"agg\":\"other\"}".to_string(),
                };
                format!("{{\"rv\":\"agg\",\"kind\":{},\"ops\":{}}}", kind, arr(&v))
            }
            Rvalue::CopyForDeref(p) => {
                format!("{{\"rv\":\"use\",\"op\":{{\"copy\":{}}}}}", self.place(p))
            }
            Rvalue::WrapUnsafeBinder(..) => "{\"rv\":\"other\"}".to_string(),
        }
    }

    fn callee(&mut self, func: &Operand<'tcx>, env: TypingEnv<'tcx>) -> String {
        let tcx = self.tcx;
        if let Some((did, args)) = func.const_fn_def() {
            let orig = self.path(did);
            let oga = self.generic_args(args);
            let mut res = String::new();
            let can = !args.iter().any(|a| matches!(a.kind(), GenericArgKind::Type(t) if t.has_infer()));
            if can {
                if let Ok(Some(inst)) = ty::Instance::try_resolve(tcx, env, did, args) {
                    let rd = inst.def_id();
                    let kind = match inst.def {
                        ty::InstanceKind::Item(_) => "item",
                        ty::InstanceKind::Intrinsic(_) => "intrinsic",
                        ty::InstanceKind::Virtual(..) => "virtual",
                        ty::InstanceKind::ClosureOnceShim { .. } => "closure_once",
                        ty::InstanceKind::FnPtrShim(..) => "fnptr_shim",
                        ty::InstanceKind::CloneShim(..) => "clone_shim",
                        ty::InstanceKind::DropGlue(..) => "drop_glue",
                        _ => "other",
                    };
                    let rga = self.generic_args(inst.args);
                    res = format!(
                        ",\"resolved\":{},\"rargs\":{},\"rkind\":{},\"rlocal\":{}",
                        q(&self.path(rd)),
                        rga,
                        q(kind),
                        rd.is_local()
                    );
                }
            }
            let trait_of = tcx
                .trait_of_assoc(did)
                .map(|t| q(&self.path(t)))
                .unwrap_or("null".to_string());
            format!(
                "{{\"orig\":{},\"oargs\":{},\"local\":{},\"trait\":{}{}}}",
                q(&orig),
                oga,
                did.is_local(),
                trait_of,
                res
            )
        } else {
            format!("{{\"indirect\":{}}}", self.operand(func, env))
        }
    }

    fn generics(&self, did: DefId) -> String {
        let tcx = self.tcx;
        let mut chain = vec![];
        let mut cur = Some(did);
        while let Some(d) = cur {
            let g = tcx.generics_of(d);
            chain.push(g);
            cur = g.parent;
        }
        chain.reverse();
        let mut v = vec![];
        for g in chain {
            for p in &g.own_params {
                let kind = match p.kind {
                    ty::GenericParamDefKind::Lifetime => "lifetime",
                    ty::GenericParamDefKind::Type { .. } => "type",
                    ty::GenericParamDefKind::Const { .. } => "const",
                };
                v.push(format!(
                    "{{\"name\":{},\"kind\":{},\"index\":{}}}",
                    q(p.name.as_str()),
                    q(kind),
                    p.index
                ));
            }
        }
        arr(&v)
    }

    fn body(&mut self, did: DefId, body: &Body<'tcx>, extra: &str) -> String {
        let tcx = self.tcx;
        let env = TypingEnv::post_analysis(tcx, did);
        let mut locals = vec![];
        let mut names: BTreeMap<usize, String> = BTreeMap::new();
        for vdi in &body.var_debug_info {
            if let VarDebugInfoContents::Place(p) = &vdi.value {
                if p.projection.is_empty() {
                    names.entry(p.local.as_usize()).or_insert(vdi.name.to_string());
                }
            }
        }
        for (l, d) in body.local_decls.iter_enumerated() {
            let tk = self.ty(d.ty);
            let nm = names.get(&l.as_usize()).map(|s| q(s)).unwrap_or("null".to_string());
            locals.push(format!("{{\"ty\":{},\"name\":{}}}", q(&tk), nm));
        }
        let mut blocks = vec![];
        for (_bb, data) in body.basic_blocks.iter_enumerated() {
            let mut stmts = vec![];
            for st in &data.statements {
                match &st.kind {
                    StatementKind::Assign(b) => {
                        let (pl, rv) = &**b;
                        stmts.push(format!(
                            "{{\"s\":\"assign\",\"place\":{},\"rvalue\":{},\"span\":{},\"exp\":{}}}",
                            self.place(pl),
                            self.rvalue(rv, env),
                            q(&self.span(st.source_info.span)),
                            st.source_info.span.from_expansion()
                        ));
                    }
                    StatementKind::SetDiscriminant { place, variant_index } => {
                        stmts.push(format!(
                            "{{\"s\":\"setdiscr\",\"place\":{},\"variant\":{}}}",
                            self.place(place),
                            variant_index.as_usize()
                        ));
                    }
                    StatementKind::Intrinsic(b) => {
                        if let NonDivergingIntrinsic::Assume(o) = &**b {
                            stmts.push(format!("{{\"s\":\"assume\",\"op\":{}}}", self.operand(o, env)));
                        } else {
                            stmts.push("{\"s\":\"copy_nonoverlapping\"}".to_string());
                        }
                    }
                    StatementKind::StorageDead(l) => {
                        stmts.push(format!("{{\"s\":\"dead\",\"l\":{}}}", l.as_usize()));
                    }
                    _ => {}
                }
            }
            let t = data.terminator();
            let tspan = q(&self.span(t.source_info.span));
            let texp = t.source_info.span.from_expansion();
            let term = match &t.kind {
                TerminatorKind::Goto { target } => {
                    format!("{{\"t\":\"goto\",\"target\":{}", target.as_usize())
                }
                TerminatorKind::SwitchInt { discr, targets } => {
                    let mut tv = vec![];
                    for (v, bb) in targets.iter() {
                        tv.push(format!("[{},{}]", v, bb.as_usize()));
                    }
                    let dty = discr.ty(&body.local_decls, tcx);
                    let dk = self.ty(dty);
                    format!(
                        "{{\"t\":\"switch\",\"discr\":{},\"dty\":{},\"targets\":{},\"otherwise\":{}",
                        self.operand(discr, env),
                        q(&dk),
                        arr(&tv),
                        targets.otherwise().as_usize()
                    )
                }
                TerminatorKind::Return => "{\"t\":\"return\"".to_string(),
                TerminatorKind::Unreachable => "{\"t\":\"unreachable\"".to_string(),
                TerminatorKind::UnwindResume => "{\"t\":\"resume\"".to_string(),
                TerminatorKind::UnwindTerminate(_) => "{\"t\":\"abort\"".to_string(),
                TerminatorKind::Drop { place, target, .. } => format!(
                    "{{\"t\":\"drop\",\"place\":{},\"target\":{}",
                    self.place(place),
                    target.as_usize()
                ),
                TerminatorKind::Call { func, args, destination, target, .. } => {
                    let av: Vec<String> = args.iter().map(|a| self.operand(&a.node, env)).collect();
                    format!(
                        "{{\"t\":\"call\",\"callee\":{},\"args\":{},\"dest\":{},\"target\":{}",
                        self.callee(func, env),
                        arr(&av),
                        self.place(destination),
                        target.map(|b| b.as_usize() as i64).unwrap_or(-1)
                    )
                }
                TerminatorKind::TailCall { func, args, .. } => {
                    let av: Vec<String> = args.iter().map(|a| self.operand(&a.node, env)).collect();
                    format!(
                        "{{\"t\":\"tailcall\",\"callee\":{},\"args\":{}",
                        self.callee(func, env),
                        arr(&av)
                    )
                }
                TerminatorKind::Assert { cond, expected, msg, target, .. } => {
                    let (kind, ops): (String, Vec<String>) = match &**msg {
                        AssertKind::BoundsCheck { len, index } => (
                            "BoundsCheck".to_string(),
                            vec![self.operand(len, env), self.operand(index, env)],
                        ),
                        AssertKind::Overflow(op, a, b) => (
                            format!("Overflow:{:?}", op),
                            vec![self.operand(a, env), self.operand(b, env)],
                        ),
                        AssertKind::OverflowNeg(a) => {
                            ("OverflowNeg".to_string(), vec![self.operand(a, env)])
                        }
                        AssertKind::DivisionByZero(a) => {
                            ("DivisionByZero".to_string(), vec![self.operand(a, env)])
                        }
                        AssertKind::RemainderByZero(a) => {
                            ("RemainderByZero".to_string(), vec![self.operand(a, env)])
                        }
                        _ => ("Other".to_string(), vec![]),
                    };
                    format!(
                        "{{\"t\":\"assert\",\"cond\":{},\"expected\":{},\"kind\":{},\"ops\":{},\"target\":{}",
                        self.operand(cond, env),
                        expected,
                        q(&kind),
                        arr(&ops),
                        target.as_usize()
                    )
                }
                other => format!("{{\"t\":\"other\",\"s\":{}", q(&format!("{:?}", other))),
            };
            let term = format!("{},\"span\":{},\"exp\":{}}}", term, tspan, texp);
            blocks.push(format!(
                "{{\"stmts\":{},\"term\":{},\"cleanup\":{}}}",
                arr(&stmts),
                term,
                data.is_cleanup
            ));
        }
        let dk = tcx.def_kind(did);
        let vis = if matches!(dk, DefKind::Fn | DefKind::AssocFn | DefKind::Const { .. } | DefKind::AssocConst { .. } | DefKind::Static { .. }) {
            format!("{:?}", tcx.visibility(did))
        } else {
            "n/a".to_string()
        };
        let is_const_fn = matches!(dk, DefKind::Fn | DefKind::AssocFn) && tcx.is_const_fn(did);
        // reachable from outside the crate (effective visibility), not just declared `pub`
        let reachable = match did.as_local() {
            Some(l) if matches!(dk, DefKind::Fn | DefKind::AssocFn) => tcx.effective_visibilities(()).is_reachable(l),
            _ => false,
        };
        // parent impl (for assoc items)
        let parent = tcx.opt_parent(did).map(|p| q(&self.path(p))).unwrap_or("null".to_string());
        let name = tcx.opt_item_name(did).map(|s| q(s.as_str())).unwrap_or("null".to_string());
        format!(
            "{{\"path\":{},\"name\":{},\"parent\":{},\"defkind\":{},\"vis\":{},\"const_fn\":{},\"reachable\":{},\"generics\":{},\"arg_count\":{},\"span\":{},\"locals\":{},\"blocks\":{}{}}}",
            q(&self.path(did)),
            name,
            parent,
            q(&format!("{:?}", dk)),
            q(&vis),
            is_const_fn,
            reachable,
            self.generics(did),
            body.arg_count,
            q(&self.span(body.span)),
            arr(&locals),
            arr(&blocks),
            extra
        )
    }
}

struct Dump;

impl Callbacks for Dump {
    fn after_analysis<'tcx>(&mut self, _c: &Compiler, tcx: TyCtxt<'tcx>) -> Compilation {
        let want = std::env::var("MIRDUMP_CRATE").unwrap_or("softposit".to_string());
        let cname = tcx.crate_name(LOCAL_CRATE).to_string();
        if cname != want {
            return Compilation::Continue;
        }
        let out = match std::env::var("MIRDUMP_OUT") {
            Ok(o) => o,
            Err(_) => return Compilation::Continue,
        };
        let mut cx = Cx { tcx, types: BTreeMap::new() };
        let mut bodies = vec![];
        let mut consts = vec![];
        for ldid in tcx.hir_body_owners() {
            let did = ldid.to_def_id();
            let dk = tcx.def_kind(did);
            match dk {
                DefKind::Fn | DefKind::AssocFn | DefKind::Closure => {
                    let body = tcx.optimized_mir(did);
                    let mut extra = String::new();
                    // promoted constants of this body
                    let proms = tcx.promoted_mir(did);
                    let mut pv = vec![];
                    for (_i, pb) in proms.iter_enumerated() {
                        pv.push(cx.body(did, pb, ""));
                    }
                    let _ = write!(extra, ",\"promoted\":{}", arr(&pv));
                    bodies.push(cx.body(did, body, &extra));
                }
                DefKind::Const { .. } | DefKind::AssocConst { .. } | DefKind::Static { .. } | DefKind::AnonConst | DefKind::InlineConst => {
                    let body = tcx.mir_for_ctfe(did);
                    let mut extra = String::new();
                    // evaluated value when closed
                    let g = tcx.generics_of(did);
                    let closed = g.count() == 0 || !cx.generics(did).contains("\"kind\":\"const\"") && !cx.generics(did).contains("\"kind\":\"type\"");
                    if closed && !matches!(dk, DefKind::AnonConst | DefKind::InlineConst) {
                        let ty = tcx.type_of(did).instantiate_identity().skip_norm_wip();
                        if matches!(dk, DefKind::Static { .. }) {
                            if let Ok(alloc) = tcx.eval_static_initializer(did) {
                                let a = alloc.inner();
                                let len = a.len();
                                let bytes = a.inspect_with_uninit_and_ptr_outside_interpreter(0..len);
                                let hex: String = bytes.iter().map(|b| format!("{:02x}", b)).collect();
                                let tk = cx.ty(ty);
                                let _ = write!(extra, ",\"value\":{{\"ty\":{},\"bytes\":{},\"off\":0}}", q(&tk), q(&hex));
                            }
                        } else if let Ok(cv) = tcx.const_eval_poly(did) {
                            let v = cx.const_value(cv, ty);
                            let _ = write!(extra, ",\"value\":{}", v);
                        }
                    }
                    consts.push(cx.body(did, body, &extra));
                }
                _ => {}
            }
        }
        // impl table, aliases, adts
        let mut impls = vec![];
        let mut aliases = vec![];
        let mut adts = vec![];
        let mut traits = vec![];
        for ldid in tcx.hir_crate_items(()).definitions() {
            let did = ldid.to_def_id();
            match tcx.def_kind(did) {
                DefKind::Impl { of_trait } => {
                    let self_ty = tcx.type_of(did).instantiate_identity().skip_norm_wip();
                    let sk = cx.ty(self_ty);
                    let tr = if of_trait {
                        let tr = tcx.impl_trait_ref(did).instantiate_identity().skip_norm_wip();
                        let ga = cx.generic_args(tr.args);
                        format!(
                            "{{\"path\":{},\"args\":{},\"s\":{}}}",
                            q(&cx.path(tr.def_id)),
                            ga,
                            q(&with_no_trimmed_paths!(format!("{}", tr)))
                        )
                    } else {
                        "null".to_string()
                    };
                    let mut items = vec![];
                    for it in tcx.associated_items(did).in_definition_order() {
                        let kind = format!("{:?}", it.kind);
                        let mut extra = String::new();
                        if it.is_type() {
                            let t = tcx.type_of(it.def_id).instantiate_identity().skip_norm_wip();
                            let tk = cx.ty(t);
                            extra = format!(",\"ty\":{}", q(&tk));
                        }
                        let tid = it
                            .trait_item_def_id()
                            .map(|d| q(&cx.path(d)))
                            .unwrap_or("null".to_string());
                        items.push(format!(
                            "{{\"name\":{},\"kind\":{},\"path\":{},\"trait_item\":{}{}}}",
                            q(it.name().as_str()),
                            q(&kind),
                            q(&cx.path(it.def_id)),
                            tid,
                            extra
                        ));
                    }
                    impls.push(format!(
                        "{{\"path\":{},\"self\":{},\"trait\":{},\"derived\":{},\"generics\":{},\"items\":{},\"span\":{}}}",
                        q(&cx.path(did)),
                        q(&sk),
                        tr,
                        tcx.is_automatically_derived(did),
                        cx.generics(did),
                        arr(&items),
                        q(&cx.span(tcx.def_span(did)))
                    ));
                }
                DefKind::TyAlias => {
                    let t = tcx.type_of(did).instantiate_identity().skip_norm_wip();
                    let tk = cx.ty(t);
                    aliases.push(format!(
                        "{{\"path\":{},\"ty\":{},\"vis\":{}}}",
                        q(&cx.path(did)),
                        q(&tk),
                        q(&format!("{:?}", tcx.visibility(did)))
                    ));
                }
                DefKind::Struct | DefKind::Enum | DefKind::Union => {
                    let t = tcx.type_of(did).instantiate_identity().skip_norm_wip();
                    let tk = cx.ty(t);
                    adts.push(format!(
                        "{{\"path\":{},\"ty\":{},\"vis\":{},\"generics\":{}}}",
                        q(&cx.path(did)),
                        q(&tk),
                        q(&format!("{:?}", tcx.visibility(did))),
                        cx.generics(did)
                    ));
                }
                DefKind::Trait => {
                    let mut items = vec![];
                    for it in tcx.associated_items(did).in_definition_order() {
                        items.push(format!(
                            "{{\"name\":{},\"kind\":{},\"path\":{},\"has_default\":{}}}",
                            q(it.name().as_str()),
                            q(&format!("{:?}", it.kind)),
                            q(&cx.path(it.def_id)),
                            it.defaultness(tcx).has_value()
                        ));
                    }
                    traits.push(format!(
                        "{{\"path\":{},\"items\":{}}}",
                        q(&cx.path(did)),
                        arr(&items)
                    ));
                }
                _ => {}
            }
        }
        let mut types = vec![];
        for (k, v) in &cx.types {
            types.push(format!("{}:{}", q(k), v));
        }
        let feats: Vec<String> = std::env::var("MIRDUMP_TAG").ok().into_iter().map(|s| q(&s)).collect();
        let doc = format!(
            "{{\"crate\":{},\"tag\":{},\"overflow_checks\":{},\"bodies\":{},\"consts\":{},\"impls\":{},\"aliases\":{},\"adts\":{},\"traits\":{},\"types\":{{{}}}}}",
            q(&cname),
            arr(&feats),
            tcx.sess.overflow_checks(),
            arr(&bodies),
            arr(&consts),
            arr(&impls),
            arr(&aliases),
            arr(&adts),
            arr(&traits),
            types.join(",")
        );
        std::fs::write(&out, doc).expect("write MIRDUMP_OUT");
        Compilation::Continue
    }
}

fn main() {
    let mut args: Vec<String> = std::env::args().collect();
    // RUSTC_WORKSPACE_WRAPPER passes the real rustc as argv[1]
    if args.len() > 1 && (args[1].ends_with("rustc") || args[1].contains("/rustc")) {
        args.remove(1);
    }
    let mut cb = Dump;
    rustc_driver::run_compiler(&args, &mut cb);
}
