"""R1 - forwarder wiring.

Every trait-impl method (operator traits, From impls, num_traits, Quire) of the listed self types is evaluated in
term mode and compared with the term of the *expected* inherent target applied to the same arguments in the
same order.  Expected target = inherent item of the same name (naming convention) plus the explicit exception
table below (one line of reason each).  Terms are compared after stripping auto-(de)ref adjustments, so the
verdict does not depend on spelling (renaming locals, extracting helpers, `Self::f(x)` vs `x.f()`).
"""
import re

from symeval import SymEval, strip_refs

SHORT = {
    'p8e0::P8E0': 'p8e0', 'p16e1::P16E1': 'p16e1', 'p32e2::P32E2': 'p32e2',
    'pxe1::PxE1<N>': 'pxe1', 'pxe2::PxE2<N>': 'pxe2', 'pxe1::PxE1<M>': 'pxe1', 'pxe2::PxE2<M>': 'pxe2',
    'quire8::Q8E0': 'q8e0', 'quire16::Q16E1': 'q16e1', 'quire32::Q32E2': 'q32e2',
}
PRIMS = {'i8', 'i16', 'i32', 'i64', 'isize', 'u8', 'u16', 'u32', 'u64', 'usize', 'f32', 'f64'}

# trait method -> named constant of the self type
CONST_METHODS = {
    ('num_traits::Zero', 'zero'): 'ZERO', ('num_traits::One', 'one'): 'ONE',
    ('num_traits::Float', 'nan'): 'NAR', ('num_traits::Float', 'infinity'): 'NAR',
    ('num_traits::Float', 'neg_infinity'): 'NAR', ('num_traits::Float', 'neg_zero'): 'ZERO',
    ('num_traits::Float', 'min_value'): 'MIN', ('num_traits::Float', 'max_value'): 'MAX',
    ('num_traits::Float', 'min_positive_value'): 'MIN_POSITIVE',
    ('num_traits::Bounded', 'min_value'): 'MIN', ('num_traits::Bounded', 'max_value'): 'MAX',
    ('num_traits::Float', 'epsilon'): 'EPSILON',
}

# (trait, method) -> inherent method name with another name (reason)
RENAMES = {
    ('num_traits::Signed', 'is_negative'): 'is_sign_negative',   # same predicate under the num_traits name
    ('num_traits::Signed', 'is_positive'): 'is_sign_positive',
    ('num_traits::Float', 'is_nan'): 'is_nar',                  # NaR plays the role of NaN
    ('num_traits::Float', 'is_infinite'): 'is_nar',             # and of infinity
}

# forwarders with their own control flow or no inherent counterpart: not compared by R1 (reason)
EXEMPT = {
    ('num_traits::Signed', 'abs_sub'): 'has no inherent counterpart (positive difference, own control flow)',
    ('num_traits::Float', 'abs_sub'): 'declared not-implemented stub',
    ('num_traits::Float', 'integer_decode'): 'declared not-implemented stub',
    ('num_traits::Num', 'from_str_radix'): 'parses text through f64 (std), checked structurally by C03',
    ('num_traits::NumCast', 'from'): 'generic over ToPrimitive: to_f64().map(From<f64>) - checked by shape below',
    ('num_traits::Float', 'max'): 'forwards to core Ord::max on the derived order; equality with inherent max is decided on order cells (C10)',
    ('num_traits::Float', 'min'): 'forwards to core Ord::min on the derived order; equality with inherent min is decided on order cells (C10)',
    ('num_traits::One', 'is_one'): 'no inherent counterpart; shape `*self == ONE` checked below',
}


def self_short(tykey):
    return SHORT.get(tykey) or SHORT.get(re.sub(r'<\w+>$', '<N>', tykey))


def other_short(tykey):
    if tykey in PRIMS:
        return tykey
    return self_short(tykey)


class Forwarders:
    def __init__(self, ctx, prog, self_types):
        self.ctx = ctx
        self.prog = prog
        self.self_types = set(self_types)
        self.se = SymEval(prog)
        self.checked = 0
        self.exempt = 0
        self.stubs = 0

    def const_value_term(self, tykey, cname):
        base = re.sub(r'<.*>$', '', tykey)
        for cand in ('%s::%s' % (base, cname), '%s::<N>::%s' % (base, cname)):
            c = self.prog.consts.get(cand)
            if c and 'value' in c:
                from interp import Interp
                I = Interp(self.prog)
                v = I.eval_const(c['value'], None)
                import symeval
                return symeval.term_of(I, v)
        return None

    def is_stub(self, path):
        """whole-body not-implemented stub: the entry block (after trivial statements) calls a panic function"""
        b = self.prog.bodies.get(path)
        if not b:
            return False
        blk = b['blocks'][0]
        t = blk['term']
        if t['t'] == 'call':
            cp = t['callee'].get('resolved') or t['callee'].get('orig') or ''
            return cp.startswith('core::panicking')
        return False

    def expected(self, im, it):
        """-> ('call', inherent path, argmap) | ('const', name) | ('exempt', reason) | ('same-arg', i) | None"""
        trait = im['trait']['path']
        selfty = im['self']
        name = it['name']
        key = (trait, name)
        if key in EXEMPT:
            return ('exempt', EXEMPT[key])
        if key in CONST_METHODS:
            return ('const', CONST_METHODS[key])
        if trait == 'num_traits::FloatConst':
            return ('mathconst', name)
        if trait == 'core::convert::From':
            src = im['trait']['args'][1].get('ty')
            q = src.lstrip('&')
            if q.startswith('quire') and selfty in self.self_types and not selfty.startswith('quire'):
                return ('call', 'to_posit', q)       # From<Q> / From<&Q> for P  ->  Q::to_posit
            if selfty.startswith('quire') and not src.startswith('quire'):
                return ('exempt', 'From<P> for Q is the definition (ZERO += (p, ONE)); Q::from_posit forwards to it (C12)')
            if selfty in self.self_types:
                o = other_short(src) or other_short(src.lstrip('&'))
                if o is None:
                    return None
                return ('call', 'from_' + o, selfty)
            else:
                # From<T> for X  ->  T::to_x
                o = other_short(selfty)
                if o is None or src not in self.self_types:
                    return None
                return ('call', 'to_' + o, src)
        m = re.match(r'core::ops::(\w+)Assign$', trait)
        if m:
            return ('assign', name.replace('_assign', ''), selfty)
        if key in RENAMES:
            return ('call', RENAMES[key], selfty)
        return ('call', name, selfty)

    def compare(self, label, got, exp):
        g = strip_refs(got)
        e = strip_refs(exp)
        return g == e

    def check_impl(self, im, prop_rule='R1'):
        ctx, prog = self.ctx, self.prog
        trait = im['trait']['path']
        for it in im['items']:
            if not it['kind'].startswith('Fn') or it['path'] not in prog.bodies:
                continue
            path = it['path']
            label = path
            exp = self.expected(im, it)
            if exp is None:
                continue
            if exp[0] == 'exempt':
                self.exempt += 1
                ctx.count('forwarders_exempt')
                continue
            body = prog.bodies[path]
            n = body['arg_count']
            if exp[0] in ('const', 'mathconst'):
                r = self.se.run(path)
                if exp[0] == 'const':
                    want = self.const_value_term(im['self'], exp[1])
                else:
                    # MathConsts constant of the same name
                    c = prog.consts.get('<%s as MathConsts>::%s' % (im['self'], it['name']))
                    want = None
                    if c and 'value' in c:
                        from interp import Interp
                        import symeval
                        I = Interp(prog)
                        want = symeval.term_of(I, I.eval_const(c['value'], None))
                if want is None:
                    ctx.finding(prop_rule, label, 'expected-constant-missing', 'constant %s of %s not found' % (exp[1], im['self']))
                    continue
                self.checked += 1
                if r is None or strip_refs(r['ret']) != strip_refs(want):
                    ctx.finding(prop_rule, label, 'constant', '%s does not return the constant %s::%s (got %r, expected %r)'
                                % (path, im['self'], exp[1], r and r['ret'], want))
                continue
            if exp[0] in ('call', 'assign'):
                target = prog.inherent(exp[2], exp[1])
                if target is None:
                    ctx.finding(prop_rule, label, 'target-missing', 'expected inherent target %s::%s not found' % (exp[2], exp[1]))
                    continue
                if target == path:
                    continue
                if self.is_stub(path) or self.is_stub(target):
                    self.stubs += 1
                    ctx.count('forwarders_stub')
                    if self.is_stub(path) != self.is_stub(target) and not self.calls(path, target):
                        ctx.finding(prop_rule, label, 'stub-mismatch', 'one of %s / %s is a not-implemented stub and the other is not' % (path, target))
                    continue
                got = self.se.run(path)
                tb = prog.bodies[target]
                if got is None:
                    k = self.se.last_outcome.kind
                    if k == 'panic':
                        # definite panic in term mode: the forwarder (or its straight-line callee) is a stub
                        self.stubs += 1
                        ctx.count('forwarders_stub')
                        continue
                    ctx.undecided.setdefault('R1-branching', []).append(path)
                    ctx.count('forwarders_branching')
                    continue
                if tb['arg_count'] != n:
                    ctx.finding(prop_rule, label, 'arity', 'forwarder has %d parameters, target %s has %d' % (n, target, tb['arg_count']))
                    continue
                want = self.se.apply(target, [('arg', i) for i in range(n)])
                self.checked += 1
                ok = True
                why = ''
                if exp[0] == 'call':
                    g = strip_refs(got['ret'])
                    w = strip_refs(want['ret'])
                    # Option-wrapping traits: Some(target(...))
                    if g != w and isinstance(g, tuple) and g[0] == 'agg' and g[1] == 1 and len(g[2]) == 1 and g[2][0] == w:
                        g = w
                    if g != w:
                        ok = False
                        why = 'returns %r, expected %r' % (g, w)
                    ge = [strip_refs(x) for x in got['effects']]
                    we = [strip_refs(x) for x in want['effects']]
                    if ok and ge != we:
                        ok = False
                        why = 'effects %r, expected %r' % (ge, we)
                    gf = {k: strip_refs(v) for k, v in got['final'].items()}
                    wf = {k: strip_refs(v) for k, v in want['final'].items()}
                    if ok and gf != wf:
                        ok = False
                        why = 'final state of reference arguments %r, expected %r' % (gf, wf)
                else:
                    g = strip_refs(got['final'].get(0))
                    w = strip_refs(want['ret'])
                    if g != w:
                        ok = False
                        why = '*self becomes %r, expected %r' % (g, w)
                if not ok:
                    ctx.finding(prop_rule, label, 'wiring', '%s is not wired to %s(params in order): %s' % (path, target, why),
                                {'forwarder': path, 'target': target, 'span': body['span']})
                else:
                    ctx.sample({'rule': 'R1', 'forwarder': path, 'target': target, 'term': str(strip_refs(got['ret']))[:160]}, limit=8)

    def calls(self, path, target):
        b = self.prog.bodies[path]
        for blk in b['blocks']:
            t = blk['term']
            if t['t'] == 'call' and (t['callee'].get('resolved') == target):
                return True
        return False

    def run(self, trait_filter=None):
        for im in self.prog.impls:
            if not im['trait']:
                continue
            tr = im['trait']['path']
            involved = im['self'] in self.self_types or (
                tr == 'core::convert::From' and im['trait']['args'][1].get('ty') in self.self_types)
            if not involved:
                continue
            if trait_filter and not trait_filter(tr, im):
                continue
            self.check_impl(im)
        return self.checked
