"""R7 - bit routing equality per regime cell.

A regime cell fixes the sign, the regime run, the terminator and the exponent bits of a posit encoding; the remaining fraction
bits are symbolic literals x[j].  On such a cell every loop and branch of an exact conversion is determinate and the result is a
routing of the literals plus constants.  The specification's routing (computed from the posit / IEEE format definitions only) must
be identical bit for bit.  The cells partition all non-zero real encodings, so equality on every cell proves the conversion
exact for every bit pattern.  Negative inputs are stated on y = -x: the entry value is `neg(y)` and two's complement negation
cancels symbolically (AInt.negof).
"""
from fractions import Fraction

from aval import AInt, AAgg, AFloat, ARef, mask, to_signed
from interp import site_key, short_fn, entry_label
import aval
from interp import Interp
import spec as S
import gcr


def regime_cells(n, es):
    """yield (k, e_known_bits list msb first (possibly shorter than es), frac_len, prefix_bits(list msb first of known body bits))"""
    body = n - 1
    for v in (0, 1):
        for r in range(1, body + 1):
            if v == 0 and r == body:
                continue  # all zeros = 0
            has_term = r < body
            prefix = [v] * r + ([1 - v] if has_term else [])
            k = (r - 1) if v == 1 else -r
            rem = body - len(prefix)
            ne = min(es, rem)
            for ebits in range(1 << ne):
                eb = [(ebits >> (ne - 1 - i)) & 1 for i in range(ne)]
                e = (ebits << (es - ne)) if ne else 0
                fl = rem - ne
                yield k, e, fl, prefix + eb


def cell_value(n, known_msb_first, fl, sym_id):
    """AInt (unsigned n bits) of a positive encoding: sign 0, known bits, then fl literals (msb first x[fl-1] .. x[0])"""
    bits = [0] + list(known_msb_first) + [('x', sym_id, fl - 1 - i, False) for i in range(fl)]
    assert len(bits) == n, (len(bits), n)
    sym = list(reversed(bits))  # index 0 = LSB
    return AInt(n, False, None, None, 0, 0, sym=sym)


def posit_cell_arg(pty, known, fl, negative, tykey=None):
    y = cell_value(pty.bits, known, fl, 0)
    ys = aval.cast_int(y, pty.bits, True)
    if not negative:
        return AAgg(tykey or pty.tykey, [ys]), y
    x, _ = aval.neg(ys)
    return AAgg(tykey or pty.tykey, [x]), y


def expected_posit_bits(n, es, scale, frac_lits):
    """msb-first bit list (n bits, sign 0) of the encoding of 2^scale * 1.f with f given as literal list msb first; None if it does not fit exactly"""
    k = scale >> es
    e = scale - (k << es)
    if k >= 0:
        reg = [1] * (k + 1) + [0]
    else:
        reg = [0] * (-k) + [1]
    eb = [(e >> (es - 1 - i)) & 1 for i in range(es)]
    body = reg + eb + list(frac_lits)
    if len(body) > n - 1:
        # allowed only if the dropped bits are constant zeros
        extra = body[n - 1:]
        if any(b != 0 for b in extra):
            return None
        body = body[:n - 1]
    body = body + [0] * (n - 1 - len(body))
    return [0] + body


def expected_float_bits(fmt, sign, scale, frac_lits):
    e = scale + fmt.bias
    if not (0 < e < fmt.emax) or len(frac_lits) > fmt.mbits:
        return None
    eb = [(e >> (fmt.ebits - 1 - i)) & 1 for i in range(fmt.ebits)]
    man = list(frac_lits) + [0] * (fmt.mbits - len(frac_lits))
    return [1 if sign else 0] + eb + man


def sym_msb_first(v):
    return list(reversed(v.symbits()))


def result_int(v):
    if isinstance(v, AAgg) and len(v.fields) == 1:
        return result_int(v.fields[0])
    if isinstance(v, AFloat):
        return v.pat
    if isinstance(v, AInt):
        return v
    return None


def check_conversion(ctx, prog, rule, label, path, src, kind, dst, gargs=None, src_tykey=None):
    """kind: 'posit' (dst = PTy) or 'float' (dst = FloatFmt).  Returns (cells, proved)."""
    I = Interp(prog)
    cells = proved = 0
    for negative in (False, True):
        for k, e, fl, known in regime_cells(src.bits, src.es):
            cells += 1
            scale = k * (1 << src.es) + e
            arg, y = posit_cell_arg(src, known, fl, negative, src_tykey)
            lits = [('x', 0, fl - 1 - i, False) for i in range(fl)]
            if kind == 'posit':
                want = expected_posit_bits(dst.bits, dst.es, scale, lits)
            elif kind == 'px':
                # generic width: (N, es) left-aligned in 32 bits
                want = expected_posit_bits(dst[0], dst[1], scale, lits)
                if want is not None:
                    want = want + [0] * (32 - dst[0])
            else:
                want = expected_float_bits(dst, negative, scale, lits)
            cname = '%s k=%d e=%d' % ('-' if negative else '+', k, e)
            if want is None:
                ctx.count('routing_cells_not_exact_in_target')
                continue
            try:
                out = I.run(path, [arg], gargs)
            except Exception as ex:
                ctx.undecided.setdefault('routing_unsupported', []).append('%s %s: %s' % (label, cname, ex))
                continue
            if out.kind != 'return':
                if out.kind in ('panic', 'budget'):
                    site = getattr(out, 'site', None)
                    if out.kind == 'panic' and site:
                        ctx.finding('PANIC', *site_key(site),
                                    '%s at %s: reached on regime cell %s of %s; the operation does not return in an overflow-checked build' % (out.value, out.where, cname, label),
                                    {'function': path}, alt=('PANIC@', entry_label(label), site_key(site)[1]))
                    else:
                        ctx.finding(rule, label, 'cell=' + cname.replace(' ', ''), 'on regime cell %s the conversion does not return: %s %s at %s' % (cname, out.kind, out.value, out.where),
                                    {'function': path})
                else:
                    ctx.count('routing_cells_undecided')
                continue
            r = result_int(out.value)
            if r is None:
                ctx.count('routing_cells_undecided')
                continue
            if kind in ('posit', 'px') and negative:
                if r.negof is None and r.is_const():
                    got = sym_msb_first(AInt.const(r.bits, False, -r.uval()))
                elif r.negof is None:
                    ctx.count('routing_cells_undecided')
                    continue
                else:
                    got = sym_msb_first(r.negof)
            else:
                got = sym_msb_first(r)
            if any(b is None for b in got):
                ctx.count('routing_cells_undecided')
                continue
            if got != want:
                diff = [i for i, (g, w) in enumerate(zip(got, want)) if g != w]
                ctx.finding(rule, label, 'cell=' + cname.replace(' ', ''),
                            'on regime cell %s (scale %d, %d fraction bits) the result routes bits differently from the specification at positions (msb=0) %s'
                            % (cname, scale, fl, diff[:8]), {'function': path, 'got': str(got), 'want': str(want)})
            else:
                proved += 1
                ctx.sample({'rule': rule, 'fn': label, 'cell': cname, 'fraction_bits': fl, 'routing': 'identical to specification'}, limit=6)
    ctx.count('routing_cells', cells)
    ctx.count('routing_cells_proved', proved)
    return cells, proved


def quire_trip(ctx, prog, q, make_state, flip, rule, label, tp=None, signs=(False, True), kfilter=None):
    """for every posit p (regime cells, refined by the lowest set fraction bit where the multi-limb negation needs it):
    to_posit(make_state(p)) == p (flip=False) or == -p (flip=True).  make_state(I, bits, negative) -> quire state value or None.
    Returns (cells, proved)."""
    from interp import _static_frame
    import rules_rounding as RR
    pty = q.pty
    tp = tp or prog.inherent(q.tykey, 'to_posit')
    I = Interp(prog, max_steps=400000)

    def fully_known(v):
        """every integer of the state is a constant"""
        if isinstance(v, AInt):
            return v.is_const()
        fs = getattr(v, 'fields', None)
        if fs is not None:
            return all(fully_known(f) for f in fs)
        es = getattr(v, 'elems', None)
        if es is not None:
            return all(fully_known(f) for f in es)
        return False

    def attempt(bits, negative, cname, concrete=False):
        """bits: the positive pattern y (msb first, constants / literals); the argument is y or -y.  A symbolic mismatch is only a candidate (explored paths
        over-approximate when part of the state is unknown); the confirming run (concrete=True) must be determinate: constant state, no path exploration."""
        try:
            state = make_state(I, bits, negative)
            if state is None or (concrete and not fully_known(state)):
                return 'undecided'
            mk = lambda: [ARef(_static_frame(state), 0, [])]
            o2 = I.run(tp, mk())
            outs = [o2]
            if o2.kind == 'undecided' and concrete:
                return 'undecided'
            if o2.kind == 'undecided':
                outs, complete = I.explore(tp, mk, {}, max_paths=64)
                outs = [o for o in outs if o.kind != 'infeasible']
                if not complete or not outs or any(o.kind == 'undecided' for o in outs):
                    return 'undecided'
        except Exception as ex:
            ctx.undecided.setdefault('routing_unsupported', []).append('%s: %s' % (cname, str(ex)[:80]))
            return 'undecided'
        want = list(bits)
        res_neg = negative ^ flip
        res = 'proved'
        for o in outs:
            if o.kind != 'return':
                return 'undecided' if len(outs) > 1 or o.kind not in ('panic', 'budget') else ('panic', o)
            r = result_int(o.value)
            if r is None:
                return 'undecided'
            if res_neg:
                if r.negof is None and r.is_const():
                    got = sym_msb_first(AInt.const(r.bits, False, -r.uval()))
                elif r.negof is None:
                    return 'undecided'
                else:
                    got = sym_msb_first(r.negof)
            else:
                got = sym_msb_first(r)
            if any(b is None for b in got):
                return 'undecided'
            if got != want:
                res = ('mismatch', got)
        return res

    cells = proved = 0
    for negative in signs:
        for k, e, fl, known in regime_cells(pty.bits, pty.es):
            if kfilter is not None and not kfilter(k):
                continue
            lits = [('x', 0, fl - 1 - i, False) for i in range(fl)]
            base = [0] + list(known) + lits
            cname = '%s%s k=%d e=%d' % (q.name, '-' if negative else '+', k, e)
            work = [(base, cname)]
            r = attempt(base, negative, cname)
            if r == 'undecided' and fl:
                # partition by the lowest set fraction bit
                work = [([0] + list(known) + [0] * fl, cname + ' frac=0')]
                for j in range(fl):
                    sub = [('x', 0, fl - 1 - i, False) if (fl - 1 - i) > j else (1 if (fl - 1 - i) == j else 0) for i in range(fl)]
                    work.append(([0] + list(known) + sub, cname + ' lowest@%d' % j))
                r = None
            for bits, cn in work:
                cells += 1
                rr = r if r is not None else attempt(bits, negative, cn)
                if rr == 'proved':
                    proved += 1
                elif rr == 'undecided':
                    ctx.count('routing_cells_undecided')
                elif rr[0] == 'panic':
                    # confirm on a concrete member of the cell before reporting
                    conc = [b if not isinstance(b, tuple) else 0 for b in bits]
                    if attempt(conc, negative, cn, concrete=True) not in ('proved', 'undecided'):
                        ctx.finding(rule, label, 'no-return', '%s does not return on regime cell %s: %s at %s' % (label, cn, rr[1].value, rr[1].where))
                    else:
                        ctx.count('routing_cells_undecided')
                else:
                    conc0 = [b if not isinstance(b, tuple) else 0 for b in bits]
                    conc1 = [b if not isinstance(b, tuple) else 1 for b in bits]
                    if any(attempt(c_, negative, cn, concrete=True) not in ('proved', 'undecided') for c_ in (conc0, conc1)):
                        f = ctx.finding(rule, label, 'cells', '%s: to_posit of the resulting accumulator is not %sp on regime cell %s' % (label, '-' if flip else '', cn),
                                        {'got': str(rr[1]), 'want': str(bits), 'cells': []})
                        f.details.setdefault('cells', []).append(cn)
                    else:
                        ctx.count('routing_cells_undecided')
    return cells, proved


def quire_round_trip(ctx, prog):
    """C12: Q::from(p).to_posit() == p for every bit pattern p"""
    from quire_common import Q8, Q16, Q32
    import rules_rounding as RR
    total = 0
    for q in (Q8, Q16, Q32):
        pty = q.pty
        frm = None
        for im in prog.impl_index.get(('core::convert::From', q.tykey), []):
            if im['trait']['args'][1].get('ty') == pty.tykey:
                frm = im['items'][0]['path']
        if not frm or not prog.inherent(q.tykey, 'to_posit'):
            ctx.finding('ANCHOR', '%s round trip' % q.name, 'missing', 'From<P> for Q / to_posit not found')
            continue

        def make_state(I, bits, negative, frm=frm, pty=pty):
            o1 = I.run(frm, [RR.posit_input(pty, bits, negative)])
            return o1.value if o1.kind == 'return' else None
        cells, proved = quire_trip(ctx, prog, q, make_state, False, 'QROUNDTRIP', q.name)
        ctx.count('roundtrip_cells_%s' % q.name, cells)
        ctx.count('roundtrip_cells_proved_%s' % q.name, proved)
        total += cells     # V4 floors count instances found, not instances decided
    return total


def fraction_subcells(known, fl):
    """split a regime cell by the position of the leading 1 of its fraction: (known bits extended, remaining symbolic length)"""
    out = [(list(known) + [0] * fl, 0)]                      # fraction == 0
    for j in range(fl):
        out.append((list(known) + [0] * j + [1], fl - j - 1))
    return out


def float_round_trip(ctx, prog, pty, fname, to=None, fr=None, label=None):
    """P::from_X(p.to_X()) == p for every bit pattern, by routing on regime cells (cells that stay undecided are split by leading fraction bit)"""
    to = to or prog.inherent(pty.tykey, 'to_' + fname)
    fr = fr or prog.inherent(pty.tykey, 'from_' + fname)
    if not to or not fr:
        ctx.finding('ANCHOR', '%s::to/from_%s' % (pty.name, fname), 'missing', 'conversion functions not found')
        return 0, 0
    I = Interp(prog, max_steps=100000)
    cells = proved = 0
    label = label or '%s::from_%s(to_%s)' % (pty.name, fname, fname)

    def attempt(known, fl, negative):
        arg, y = posit_cell_arg(pty, known, fl, negative)
        o1 = I.run(to, [arg])
        if o1.kind != 'return':
            return 'undecided', None
        o2 = I.run(fr, [o1.value])
        if o2.kind in ('panic', 'budget'):
            return 'panic', '%s %s at %s' % (o2.kind, o2.value, o2.where)
        if o2.kind != 'return':
            return 'undecided', None
        r = result_int(o2.value)
        if r is None:
            return 'undecided', None
        want = sym_msb_first(y)
        if negative:
            if r.negof is None and r.is_const():
                got = sym_msb_first(AInt.const(r.bits, False, -r.uval()))
            elif r.negof is None:
                return 'undecided', None
            else:
                got = sym_msb_first(r.negof)
        else:
            got = sym_msb_first(r)
        if any(b is None for b in got):
            return 'undecided', None
        return ('ok', None) if got == want else ('diff', (got, want))
    for negative in (False, True):
        for k, e, fl, known in regime_cells(pty.bits, pty.es):
            work = [(known, fl, True)]
            while work:
                kn, f, top = work.pop()
                cells += 1
                cname = '%s k=%d e=%d%s' % ('-' if negative else '+', k, e, '' if top else ' sub=%d' % f)
                st, info = attempt(kn, f, negative)
                if st == 'ok':
                    proved += 1
                elif st == 'undecided' and top and f > 0:
                    cells -= 1
                    work += [(a, b, False) for a, b in fraction_subcells(kn, f)]
                elif st == 'undecided':
                    ctx.count('routing_cells_undecided')
                elif st == 'panic':
                    ctx.finding('R7-roundtrip', label, 'cell=' + cname.replace(' ', ''), 'round trip does not return on regime cell %s: %s' % (cname, info))
                else:
                    ctx.finding('R7-roundtrip', label, 'cell=' + cname.replace(' ', ''), 'posit -> %s -> posit is not the identity on regime cell %s' % (fname, cname),
                                {'got': str(info[0]), 'want': str(info[1])})
    ctx.count('roundtrip_cells', cells)
    ctx.count('roundtrip_cells_proved', proved)
    return cells, proved
