"""Term mode of the abstract interpreter (used by R1 forwarder wiring, C18 polynomial wiring, C04/C12 terms).

Arguments are opaque symbols; straight-line code is folded into terms; a local callee is inlined when its
own body is straight-line on symbolic inputs, otherwise it becomes an uninterpreted application
('app', path, generic-args, (argument terms...)).  Calls that receive a `&mut` argument are also recorded,
in order, in the effect list and the referent becomes ('after', effect-index, position).
"""
import json

from aval import AInt, AAgg, AFloat, ARef, ATop, AFn, ASym
import interp
from interp import Interp, Undecided, Panic, Budget, Unsupported, _static_frame, Frame


def term_of(I, v, depth=0):
    if isinstance(v, ASym):
        return v.term
    if isinstance(v, AInt):
        if v.is_const():
            return ('c', v.bits, v.uval())
        if v.term is not None:
            return v.term
        return ('top',)
    if isinstance(v, AAgg):
        return ('agg', v.variant, tuple(term_of(I, f, depth + 1) for f in v.fields))
    if isinstance(v, AFloat):
        if v.pat is not None and v.pat.is_const():
            return ('f', v.bits, v.pat.uval())
        return ('top',)
    if isinstance(v, ARef):
        try:
            tv = I.read_place(v.frame, {'l': v.local, 'p': v.proj})
        except Exception:
            return ('ref', ('top',))
        if depth > 6:
            return ('ref', ('deep',))
        return ('ref', term_of(I, tv, depth + 1))
    if isinstance(v, AFn):
        return ('fn', v.path)
    if isinstance(v, ATop):
        return ('top',)
    return ('top',)


def strip_refs(t):
    """auto-ref / auto-deref adjustments are not semantic"""
    if isinstance(t, tuple):
        if t and t[0] == 'ref':
            return strip_refs(t[1])
        if t and t[0] == 'deref':
            return strip_refs(t[1])
        return tuple(strip_refs(x) for x in t)
    return t


ITER_PATHS = {p for p in interp.INTRINSICS if 'iter' in p.lower()}


class SymEval:
    def __init__(self, prog, inline_ok=None, max_steps=4000):
        self.prog = prog
        self.inline_ok = inline_ok or (lambda path: True)
        self.leaf_cache = {}
        self.max_steps = max_steps

    def run(self, path, nargs=None, gargs=None, mut_args=(), arg_values=None):
        """-> dict(ret=term, effects=[...], final={argidx: term}) or None when the body itself branches on symbols"""
        body = self.prog.bodies[path]
        n = body['arg_count'] if nargs is None else nargs
        I = Interp(self.prog, max_steps=self.max_steps, unknown_callee_top=False)
        self.effects = []
        I.call_hook = self._hook
        args = []
        holders = {}
        for i in range(n):
            if arg_values and i in arg_values:
                args.append(arg_values[i])
                continue
            tk = body['locals'][i + 1]['ty']
            t = self.prog.types.get(tk) or {}
            if t.get('k') == 'ref':
                fr = _static_frame(ASym(('arg', i)))
                holders[i] = fr
                args.append(ARef(fr, 0, [], t.get('mut', False)))
            else:
                args.append(ASym(('arg', i)))
        out = I.run(path, args, gargs)
        self.last_outcome = out
        if out.kind != 'return':
            return None
        final = {}
        for i, fr in holders.items():
            if args[i].mut:
                final[i] = term_of(I, fr.locals[0])
        return {'ret': term_of(I, out.value), 'effects': list(self.effects), 'final': final}

    def apply(self, path, arg_terms, gargs=None):
        """term of calling `path` on arguments given as terms (('arg', i) etc.): inlined when straight-line, else an App"""
        body = self.prog.bodies[path]
        vals = {}
        n = body['arg_count']
        I = Interp(self.prog, max_steps=self.max_steps, unknown_callee_top=False)
        I.call_hook = self._hook
        self.effects = []
        args = []
        holders = {}
        for i in range(n):
            tk = body['locals'][i + 1]['ty']
            t = self.prog.types.get(tk) or {}
            v = ASym(arg_terms[i])
            if t.get('k') == 'ref':
                fr = _static_frame(v)
                holders[i] = fr
                args.append(ARef(fr, 0, [], t.get('mut', False)))
            else:
                args.append(v)
        out = I.run(path, args, gargs)
        if out.kind == 'return':
            final = {i: term_of(I, fr.locals[0]) for i, fr in holders.items() if args[i].mut}
            return {'ret': term_of(I, out.value), 'effects': list(self.effects), 'final': final, 'kind': 'inlined'}
        import json as _j
        ga = _j.dumps(gargs, sort_keys=True) if gargs else ''
        targs = tuple(('ref', arg_terms[i]) if i in holders else arg_terms[i] for i in range(n))
        app = ('app', path, ga, targs)
        has_mut = any(holders[i] and (self.prog.types.get(body['locals'][i + 1]['ty']) or {}).get('mut') for i in holders)
        res = {'ret': app, 'effects': [], 'final': {}, 'kind': out.kind}
        if has_mut:
            res['effects'] = [app]
            for i in holders:
                if (self.prog.types.get(body['locals'][i + 1]['ty']) or {}).get('mut'):
                    res['final'][i] = ('after', 0, i)
        return res

    def _hook(self, I, frame, path, rargs, args, t):
        # never intercept integer intrinsics on concrete values
        if path.startswith('core::num::') and all(isinstance(a, AInt) for a in args):
            return None
        if path.startswith('core::panicking') or path.startswith('core::panic'):
            return None
        if 'IntoIterator' in path or 'Iterator>::next' in path or path in ITER_PATHS:
            return None   # modelled iterator protocol over literal arrays
        ga = json.dumps(rargs, sort_keys=True) if rargs else ''
        body = self.prog.bodies.get(path)
        has_mut = any(isinstance(a, ARef) and a.mut for a in args)
        if body is not None and self.inline_ok(path) and self.leaf_cache.get(path) is not False and frame.depth < 12:
            # try to inline symbolically
            saved_steps = I.steps
            snapshot = [(a, I.read_place(a.frame, {'l': a.local, 'p': a.proj})) for a in args if isinstance(a, ARef) and a.mut]
            ne = len(self.effects)
            try:
                genv = I.bind_generics(body, rargs)
                r = I.run_body(body, genv, args, frame.depth + 1)
                self.leaf_cache.setdefault(path, True)
                return r
            except (Undecided, Unsupported):
                self.leaf_cache[path] = False
                del self.effects[ne:]
                for a, v in snapshot:
                    I.write_place(a.frame, {'l': a.local, 'p': a.proj}, v)
        targs = tuple(term_of(I, a) for a in args)
        app = ('app', path, ga, targs)
        if has_mut:
            self.effects.append(app)
            idx = len(self.effects) - 1
            for k, a in enumerate(args):
                if isinstance(a, ARef) and a.mut:
                    I.write_place(a.frame, {'l': a.local, 'p': a.proj}, ASym(('after', idx, k)))
        return ASym(app)
