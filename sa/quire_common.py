"""shared machinery for the quire properties C04 / C12"""
import itertools

from aval import AInt, AAgg, ARef, ASym, mask, to_signed
from interp import Interp, _static_frame
from symeval import SymEval, strip_refs, term_of
import gcr
from gcr import P8, P16, P32, posit_arg


class QTy:
    def __init__(self, name, tykey, pty, fields):
        self.name = name
        self.tykey = tykey
        self.pty = pty
        self.fields = fields          # list of (bits, signed)
        self.nf = len(fields)

    def field_cells(self, k, fine=True):
        bits, signed = self.fields[k]
        m = mask(bits)
        if signed:
            sb = 1 << (bits - 1)
            return [(0, 0), (1, sb - 1), (sb, sb), (sb + 1, m)]
        return [(0, 0), (1, m)]

    def state(self, cell, base=0):
        """AAgg quire state whose field k ranges over cell[k] (unsigned pattern interval), term ('in', base+k)"""
        fs = []
        for k, (bits, signed) in enumerate(self.fields):
            lo, hi = cell[k]
            if (lo, hi) == (0, mask(bits)):
                lo, hi = AInt.trange(bits, signed)
            elif signed:
                lo, hi = to_signed(lo, bits), to_signed(hi, bits)
            fs.append(AInt(bits, signed, lo, hi, term=('in', base + k)))
        return AAgg(self.tykey, fs)

    def zero_cell(self):
        return tuple((0, 0) for _ in self.fields)

    def nar_cell(self):
        b0 = self.fields[0][0]
        return ((1 << (b0 - 1), 1 << (b0 - 1)),) + tuple((0, 0) for _ in self.fields[1:])

    def is_zero(self, xs):
        return all(x == 0 for x in xs[:self.nf])

    def is_nar(self, xs):
        b0 = self.fields[0][0]
        return xs[0] == (1 << (b0 - 1)) and all(x == 0 for x in xs[1:self.nf])

    def out_bits(self):
        return [b for b, _ in self.fields]

    def nar_fields(self):
        b0 = self.fields[0][0]
        return [1 << (b0 - 1)] + [0] * (self.nf - 1)


Q8 = QTy('Q8E0', 'quire8::Q8E0', P8, [(32, True)])
Q16 = QTy('Q16E1', 'quire16::Q16E1', P16, [(128, True)])
Q32 = QTy('Q32E2', 'quire32::Q32E2', P32, [(64, True)] + [(64, False)] * 7)
QTYS = [Q8, Q16, Q32]


def self_ref(state, mut=False):
    return ARef(_static_frame(state), 0, [], mut)


def final_state(I, out, args):
    a = args[0]
    return I.read_place(a.frame, {'l': a.local, 'p': a.proj})


def find_assign_impl(prog, qty, trait, rhs_ty):
    for im in prog.impl_index.get((trait, qty.tykey), []):
        ta = im['trait']['args']
        if len(ta) >= 2 and ta[1].get('ty') == rhs_ty:
            for it in im['items']:
                if it['kind'].startswith('Fn'):
                    return it['path']
    return None


def assign_impls(prog, qty, trait):
    out = []
    for im in prog.impl_index.get((trait, qty.tykey), []):
        ta = im['trait']['args']
        if len(ta) >= 2 and 'ty' in ta[1]:
            for it in im['items']:
                if it['kind'].startswith('Fn'):
                    out.append((ta[1]['ty'], it['path'], im))
    return out


def build_rhs(prog, tykey, leaf_ty, path=()):
    """symbolic value of an operand spelling: tuples / arrays of posit leaves -> (value, structure)"""
    if tykey == leaf_ty:
        return ASym(('leaf',) + path), ('leaf', path)
    t = prog.types.get(tykey)
    if t and t['k'] == 'tuple':
        vs, ss = [], []
        for i, e in enumerate(t['elems']):
            v, s_ = build_rhs(prog, e, leaf_ty, path + (i,))
            vs.append(v)
            ss.append(s_)
        return AAgg(tykey, vs), ('tuple', ss)
    if t and t['k'] == 'array':
        n = t['len'].get('v')
        vs, ss = [], []
        for i in range(n):
            v, s_ = build_rhs(prog, t['elem'], leaf_ty, path + (i,))
            vs.append(v)
            ss.append(s_)
        return AAgg(tykey, vs), ('tuple', ss)
    raise ValueError('unsupported operand spelling %s' % tykey)


def leaves(struct):
    if struct[0] == 'leaf':
        return [struct[1]]
    out = []
    for s_ in struct[1]:
        out += leaves(s_)
    return out


def expected_pairs(struct):
    """cartesian product leaves(lhs) x leaves(rhs), lhs-major; a single leaf is a plain posit accumulate"""
    if struct[0] == 'leaf':
        return [(struct[1],)]
    lhs, rhs = struct[1]
    return [(a, b) for a in leaves(lhs) for b in leaves(rhs)]


def placement_tasks(prog, tier, only_kinds=None):
    """tasks (for rules_rounding.run_parallel) of the QPLACE rule: every base accumulate spelling applied to the cleared quire with one posit p
    (the other factor ONE) must leave exactly +p / -p: to_posit of the result is p resp. -p for every bit pattern p"""
    import collections
    import rules_routing
    import rules_rounding as RR
    ptasks = []
    for q in QTYS:
        pty = q.pty
        P = pty.tykey
        one = pty.one
        specs = []
        for tr, flip in (('core::ops::AddAssign', False), ('core::ops::SubAssign', True)):
            p1 = find_assign_impl(prog, q, tr, P)
            if p1:
                specs.append(('<%s as %s<P>>' % (q.name, tr.split('::')[-1]), p1, 'one', flip))
            p2 = find_assign_impl(prog, q, tr, '(%s, %s)' % (P, P))
            if p2:
                specs.append(('<%s as %s<(P,ONE)>>' % (q.name, tr.split('::')[-1]), p2, 'pair', flip))
                specs.append(('<%s as %s<(ONE,P)>>' % (q.name, tr.split('::')[-1]), p2, 'pair_r', flip))
        for nm, flip in (('add_product', False), ('sub_product', True)):
            pi = prog.inherent(q.tykey, nm)
            if pi:
                specs.append(('%s::%s(p, ONE)' % (q.name, nm), pi, 'inh2', flip))
        if q.nf > 1 and tier == 'quick':
            specs = [s_ for s_ in specs if s_[2] in ('one', 'pair')]      # the multi-limb quire is the expensive one: all spellings in the thorough tier
        if only_kinds is not None:
            specs = [s_ for s_ in specs if (s_[2], s_[3]) in only_kinds]
        for label, path, kind, flip in specs:
            def make_state(I, bits, negative, path=path, kind=kind, q=q, pty=pty, one=one):
                st = q.state(q.zero_cell())
                ref = self_ref(st, True)
                pv = RR.posit_input(pty, bits, negative)
                ov = AAgg(pty.tykey, [AInt.const(pty.bits, True, one)])
                if kind == 'one':
                    args = [ref, pv]
                elif kind == 'pair':
                    args = [ref, AAgg('(tuple)', [pv, ov])]
                elif kind == 'pair_r':
                    args = [ref, AAgg('(tuple)', [ov, pv])]
                else:
                    args = [ref, pv, ov]
                o = I.run(path, args)
                if o.kind != 'return':
                    return None
                return final_state(I, o, args)
            for sg in (False, True):
                for par in (0, 1, 2, 3):
                    if q.nf == 1 and par:
                        continue

                    def task(c, pr, q=q, ms=make_state, flip=flip, label=label, sg=sg, par=par):
                        kf = (lambda k, par=par: k % 4 == par) if q.nf > 1 else None
                        c_, p_ = rules_routing.quire_trip(c, pr, q, ms, flip, 'QPLACE', label, signs=(sg,), kfilter=kf)
                        return collections.Counter(cells=c_, proved=p_)
                    ptasks.append((task, (), {}))
    return ptasks


FRAC_BITS_Q = {'Q8E0': 12, 'Q16E1': 56, 'Q32E2': 240}


def image_tasks(prog, tier):
    """tasks of the QIMAGE rule (rules_rounding.check_quire_image) for every quire, base spelling, power of two and sign"""
    import rules_rounding as RR
    tasks = []
    for q in QTYS:
        P = q.pty.tykey
        ts = {8: [0, -3, 4], 16: [0, -9, 13], 32: [0, -21, 37]}[q.pty.bits]
        if tier == 'thorough':
            ts = {8: list(range(-6, 6)), 16: list(range(-27, 27, 3)), 32: list(range(-118, 118, 13))}[q.pty.bits]
        for tr, sub in (('core::ops::AddAssign', False), ('core::ops::SubAssign', True)):
            p2 = find_assign_impl(prog, q, tr, '(%s, %s)' % (P, P))
            p1 = find_assign_impl(prog, q, tr, P)
            for kind, path in (('pair', p2), ('pair_r', p2), ('one', p1)):
                if not path:
                    continue
                label = '<%s as %s<%s>>%s' % (q.name, tr.split('::')[-1], {'pair': '(P,2^t)', 'pair_r': '(2^t,P)', 'one': 'P'}[kind], '[sub]' if sub else '')
                for t in (ts if kind != 'one' else [0]):
                    for sg in (False, True):
                        tasks.append((RR.check_quire_image, (q, FRAC_BITS_Q[q.name], path, kind, [t], label), dict(signs=(sg,))))
        for nm, sub in (('add_product', False), ('sub_product', True)):
            pi = prog.inherent(q.tykey, nm)
            if pi:
                label = '%s::%s(p, 2^t)%s' % (q.name, nm, '[sub]' if sub else '')
                for sg in (False, True):
                    tasks.append((RR.check_quire_image, (q, FRAC_BITS_Q[q.name], pi, 'inh2', [ts[0], ts[-1]], label), dict(signs=(sg,))))
    return tasks
