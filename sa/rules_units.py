"""R8 - layout / units of decoded posit fields (dataflow over MIR facts, no execution).

Values returned by the decode helpers carry units:
  separate_bits_tmp(x) -> (.0 REGIME, .1 WORD)          separate_bits(x) -> (.0 REGIME, .1 EXP, .2 FRAC)  (P8E0: (.0 REGIME, .1 FRAC))
REGIME is closed under casts, negation, +- constant, +- REGIME;  EXP under casts, +- EXP, & / ^ constant.
(L1) Shr(WORD, C) with a constant C applied to the *unmodified* decoded word must have C = W-1-ES (W = width of the word) and yields EXP.
(L2) In an Add/Sub whose one side is derived from Shl(REGIME, c) (or REGIME * 2^c) and whose other side is EXP, c must equal ES.
ES and W are those of the type whose decoder produced the value.  Any other use is outside the rule (no verdict).
"""
import re

from interp import Interp, Frame, short_fn

DECODERS = {
    # type path prefix -> es
    'p8e0::P8E0': 0, 'p16e1::P16E1': 1, 'p32e2::P32E2': 2, 'pxe1::PxE1': 1, 'pxe2::PxE2': 2,
}


def decoder_of(path):
    m = re.match(r'^(.*?)(?:::<[^>]*>)?::(separate_bits|separate_bits_tmp)$', path)
    if not m:
        return None
    base = m.group(1)
    if base in DECODERS:
        return base, DECODERS[base], m.group(2)
    return None


class Units:
    def __init__(self, prog, body, genv):
        self.prog = prog
        self.body = body
        self.genv = genv
        self.I = Interp(prog)
        self.frame = Frame(body, genv, 0)
        self.tags = {}       # local -> tag tuple or 'conflict'
        self.ptags = {}      # (local, field) -> tag  for tuple results of decoders
        self.instances = []  # (kind, ok, detail, span)
        self.single = {}
        for blk in body['blocks']:
            for st in blk['stmts']:
                if st['s'] == 'assign' and not st['place']['p']:
                    self.single.setdefault(st['place']['l'], []).append(st['rvalue'])

    # ---- constants
    def const_val(self, o, depth=0):
        if 'const' in o:
            c = o['const']
            if 'scalar' in c:
                return c['scalar']
            try:
                v = self.I.eval_const(c, self.frame)
            except Exception:
                return None
            if hasattr(v, 'is_const') and v.is_const():
                return v.lo
            return None
        pl = o.get('copy') or o.get('move')
        if pl['p'] and not (len(pl['p']) == 1 and isinstance(pl['p'][0], dict) and pl['p'][0].get('f') == 0):
            return None
        return self.local_const(pl['l'], depth + 1)

    def local_const(self, l, depth=0):
        if depth > 12:
            return None
        rvs = self.single.get(l)
        if not rvs or len(rvs) != 1:
            return None
        rv = rvs[0]
        k = rv['rv']
        if k == 'use':
            return self.const_val(rv['op'], depth)
        if k == 'cast' and rv['kind'] == 'IntToInt':
            return self.const_val(rv['op'], depth)
        if k == 'bin':
            a = self.const_val(rv['a'], depth)
            b = self.const_val(rv['b'], depth)
            if a is None or b is None:
                return None
            op = rv['op'].replace('WithOverflow', '')
            try:
                return {'Add': a + b, 'Sub': a - b, 'Mul': a * b, 'Shl': a << b if 0 <= b < 128 else None,
                        'Shr': a >> b if 0 <= b < 128 else None}.get(op)
            except Exception:
                return None
        return None

    # ---- tags
    def set_tag(self, l, tag):
        if tag is None:
            return False
        cur = self.tags.get(l)
        if cur is None:
            self.tags[l] = tag
            return True
        if cur != tag and cur != 'conflict':
            self.tags[l] = 'conflict'
            return True
        return False

    def op_tag(self, o):
        if 'const' in o:
            return ('const',)
        pl = o.get('copy') or o.get('move')
        if not pl['p']:
            t = self.tags.get(pl['l'])
            return t if t != 'conflict' else None
        if len(pl['p']) == 1 and isinstance(pl['p'][0], dict) and 'f' in pl['p'][0]:
            t = self.ptags.get((pl['l'], pl['p'][0]['f']))
            if t:
                return t
            # .0 of an overflow-checked tuple keeps the tag of the tuple local
            if pl['p'][0]['f'] == 0:
                t = self.tags.get(pl['l'])
                return t if t != 'conflict' else None
        return None

    def run(self):
        body = self.body
        # seed: decoder call results
        for blk in body['blocks']:
            t = blk['term']
            if t['t'] == 'call':
                cp = t['callee'].get('resolved') or ''
                d = decoder_of(cp)
                if d and not t['dest']['p']:
                    base, es, which = d
                    dl = t['dest']['l']
                    dty = self.prog.types.get(body['locals'][dl]['ty']) or {}
                    n = len(dty.get('elems', []))
                    self.ptags[(dl, 0)] = ('REGIME', base, es)
                    if which == 'separate_bits_tmp':
                        wt = self.prog.ty(dty['elems'][1])
                        self.ptags[(dl, 1)] = ('WORD', base, es, wt['bits'])
                    elif n == 3:
                        self.ptags[(dl, 1)] = ('EXP', base, es)
        changed = True
        it = 0
        while changed and it < 20:
            changed = False
            it += 1
            for blk in body['blocks']:
                for st in blk['stmts']:
                    if st['s'] != 'assign' or st['place']['p']:
                        continue
                    dst = st['place']['l']
                    tag = self.rvalue_tag(st['rvalue'], st.get('span'), record=False)
                    if self.set_tag(dst, tag):
                        changed = True
        # final pass: record instances
        for blk in body['blocks']:
            for st in blk['stmts']:
                if st['s'] == 'assign':
                    self.rvalue_tag(st['rvalue'], st.get('span'), record=True)
        return self.instances

    def rvalue_tag(self, rv, span, record):
        k = rv['rv']
        if k == 'use':
            t = self.op_tag(rv['op'])
            return t if t and t[0] != 'const' else None
        if k == 'cast' and rv['kind'] == 'IntToInt':
            t = self.op_tag(rv['op'])
            return t if t and t[0] != 'const' else None
        if k == 'un' and rv['op'] == 'Neg':
            t = self.op_tag(rv['a'])
            return t if t and t[0] in ('REGIME', 'RSCALED', 'SCALE') else None
        if k != 'bin':
            return None
        op = rv['op'].replace('WithOverflow', '').replace('Unchecked', '')
        ta, tb = self.op_tag(rv['a']), self.op_tag(rv['b'])
        if op == 'Shr' and ta and ta[0] == 'WORD':
            c = self.const_val(rv['b'])
            if c is None:
                return None
            _, base, es, w = ta
            ok = (c == w - 1 - es)
            if record:
                self.instances.append(('L1:>>%d' % c, ok, 'decoded word of %s (es=%d, %d-bit) shifted right by %d to extract the exponent, expected %d' % (base, es, w, c, w - 1 - es), span))
            return ('EXP', base, es)
        if op == 'Shl' and ta and ta[0] == 'REGIME':
            c = self.const_val(rv['b'])
            if c is None:
                return None
            return ('RSCALED', ta[1], ta[2], c)
        if op == 'Mul' and ((ta and ta[0] == 'REGIME') or (tb and tb[0] == 'REGIME')):
            reg = ta if ta and ta[0] == 'REGIME' else tb
            other = rv['b'] if reg is ta else rv['a']
            c = self.const_val(other)
            if c and c > 0 and (c & (c - 1)) == 0:
                return ('RSCALED', reg[1], reg[2], c.bit_length() - 1)
            return None
        if op in ('Add', 'Sub'):
            if ta is None or tb is None:
                return None
            kinds = (ta[0], tb[0])
            if 'const' in kinds:
                other = ta if tb[0] == 'const' else tb
                return other if other[0] in ('REGIME', 'EXP', 'RSCALED', 'SCALE') else None
            if kinds == ('REGIME', 'REGIME'):
                return ta
            if kinds == ('EXP', 'EXP'):
                return ta
            if kinds == ('RSCALED', 'RSCALED'):
                return ta if ta[3] == tb[3] else None
            if set(kinds) == {'RSCALED', 'EXP'}:
                rs = ta if ta[0] == 'RSCALED' else tb
                ok = rs[3] == rs[2]
                if record:
                    self.instances.append(('L2:<<%d' % rs[3], ok, 'regime of %s (es=%d) scaled by << %d and combined with an exponent field, expected << %d' % (rs[1], rs[2], rs[3], rs[2]), span))
                return ('SCALE', rs[1], rs[2])
            if kinds[0] == 'SCALE' and kinds[1] in ('EXP', 'SCALE'):
                return ta
            if kinds[1] == 'SCALE' and kinds[0] == 'EXP':
                return tb
            return None
        if op in ('BitAnd', 'BitXor') and ta and ta[0] == 'EXP' and tb and tb[0] == 'const':
            return ta
        return None


def check_units(ctx, prog, types=None, gvals=(8, 16, 32)):
    """run the unit rules over every body that calls a decoder; returns the number of rule instances"""
    total = 0
    seen = set()
    for path, body in prog.bodies.items():
        calls_decoder = False
        for blk in body['blocks']:
            t = blk['term']
            if t['t'] == 'call' and decoder_of(t['callee'].get('resolved') or ''):
                calls_decoder = True
                break
        if not calls_decoder:
            continue
        if types is not None and not any(path.startswith(tp.split('<')[0].rsplit('::', 1)[0] + '::') or tp.split('<')[0] in path for tp, _, _ in types):
            continue
        gens = [g['name'] for g in body.get('generics', []) if g['kind'] == 'const']
        envs = [dict((g, v) for g in gens) for v in gvals] if gens else [{}]
        bad = {}    # kind (rule + the offending constant) -> list of (N, detail, span); line- and order-free
        for genv in envs:
            u = Units(prog, body, genv)
            for kind, ok, detail, span in u.run():
                total += 1
                if not ok:
                    bad.setdefault(kind, []).append((genv.get('N'), detail, span))
                else:
                    ctx.sample({'rule': 'R8-' + kind, 'fn': path, 'detail': detail}, limit=6)
        for kind, lst in sorted(bad.items()):
            nl = sorted({str(x[0]) for x in lst if x[0] is not None})
            detail = lst[0][1]
            ctx.finding('R8', short_fn(path), kind, '%s: %s%s' % (path, detail, (' (for N = %s)' % ','.join(nl)) if nl else ''),
                        {'function': path, 'span': lst[0][2], 'N': nl})
    return total
