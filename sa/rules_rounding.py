"""R10 - rounding cells: bit-level proof of round-to-nearest-even conversions into a posit format.

A *rounding cell* fixes everything that decides control flow and the rounding decision of a conversion, and leaves the rest
symbolic:
  * the sign and the binary scale of the source value (float exponent field / position of the leading one of an integer /
    regime + exponent of a source posit) - this fixes the target regime, the exponent bits and every shift amount;
  * the rounding situation of the target: the last kept bit x, the round bit r, and the class of the sticky bits
    (r=0: any; r=1,x=0: all zero (tie) or "bit j is the highest set sticky bit"; r=1,x=1: any);
  * when the result is incremented with x=1: the length t of the run of ones above x (so that the increment is a bit pattern, not
    a carry chain).
All other significand bits are literals m[j].  On such a cell the code is control-determinate and its result is a vector of
constants and literals, which must equal the specification's vector: the first n-1 bits of the unbounded encoding string
(regime, exponent, significand) of the source value, incremented when the case rounds up, clamped to [minpos, maxpos].  The cells
of one source format partition all its finite non-zero values, so equality on every cell proves the conversion correctly rounded
for every input.  The quick tier samples the sticky position j and the run length t (and says so); the thorough tier takes all.
"""
import random
from fractions import Fraction

from aval import AInt, AAgg, AFloat, mask
import aval
from interp import Interp
import spec as S
from rules_routing import sym_msb_first, result_int


TRUSTED = ['rustc MIR construction and callee resolution', 'transfer functions of the symbolic bit-vector domain (and/or/xor/not/shifts/casts exact; add/sub by three-valued ripple carry; negation with known lowest set bit)',
           'the encoding-string formulation of the posit rule (cross-checked against the exact rational oracle on a random completion of every cell)',
           'may-mode path enumeration treats a path as infeasible only after interval / known-bit refinement empties it']


def lit(j):
    return ('x', 0, j, False)


def is_lit(b):
    return isinstance(b, tuple)


def encoding_string(es, scale, sig_bits):
    """unbounded encoding string (msb first, without sign) of 2^scale * 1.s with s = sig_bits (constants / literals)"""
    k = scale >> es
    e = scale - (k << es)
    reg = [1] * (k + 1) + [0] if k >= 0 else [0] * (-k) + [1]
    eb = [(e >> (es - 1 - i)) & 1 for i in range(es)]
    return reg + eb + list(sig_bits)


def subst(bits, asg):
    """apply an assignment {literal index: 0/1}; complemented literals evaluate to the complement"""
    out = []
    for b in bits:
        if is_lit(b) and b[2] in asg:
            v = asg[b[2]]
            out.append(1 - v if b[3] else v)
        else:
            out.append(b)
    return out


def setbit(asg, b, v):
    """make the (possibly complemented) literal bit b evaluate to v"""
    asg[b[2]] = (1 - v) if b[3] else v


def sym_inc(bits):
    """bits msb-first (+1); requires the carry chain to run over constants only; returns None otherwise"""
    out = list(bits)
    i = len(out) - 1
    while i >= 0:
        b = out[i]
        if is_lit(b):
            return None
        if b == 0:
            out[i] = 1
            return out
        out[i] = 0
        i -= 1
    return [1] + out   # overflowed into the sign position: one bit longer (caller clamps)


def rounding_cases(B, nk, full=True, key_ids=()):
    """yield (assignment {literal index: 0/1}, expected kept bits (nk, msb first), case name) for the encoding string B.
    A literal may occur more than once in B (a product of a symbolic operand with a two-bit constant): every case is therefore finalised by
    substituting its assignment into the whole string and dropped when the substitution contradicts the case (no input satisfies it)."""
    if len(B) <= nk:
        yield {}, list(B) + [0] * (nk - len(B)), 'exact'
        return
    for asg, inc, name, chk in _rounding_case_candidates(B, nk, full, key_ids):
        Bf = subst(B, asg)
        x, r, sticky = Bf[nk - 1], Bf[nk], Bf[nk + 1:]
        xv, rv, cls = chk
        if (not is_lit(x) and x != xv) or (not is_lit(r) and r != rv) or is_lit(x) or is_lit(r):
            continue
        if cls == 'tie' and any(b != 0 for b in sticky):
            continue
        if isinstance(cls, tuple):         # ('top', j): sticky literal j is the highest set sticky bit
            seen_one = False
            ok = True
            for b in sticky:
                if b == 1:
                    seen_one = True
                    break
                if is_lit(b):
                    ok = False
                    break
            if not ok or not seen_one:
                continue
        if cls == 'ones' and not any(b == 1 for b in sticky):
            continue
        kept = Bf[:nk]
        yield asg, (sym_inc(kept) if inc else kept), name


def _rounding_case_candidates(B, nk, full, key_ids):
    x, r, sticky = B[nk - 1], B[nk], B[nk + 1:]
    sticky_const_one = any(b == 1 for b in sticky)
    st_lits = []
    for b in sticky:
        if is_lit(b) and not any(b[2] == c[2] for c in st_lits):
            st_lits.append(b)
    for xv in ((0, 1) if is_lit(x) else (x,)):
        for rv in ((0, 1) if is_lit(r) else (r,)):
            asg = {}
            if is_lit(x):
                setbit(asg, x, xv)
            if is_lit(r):
                if r[2] in asg and asg[r[2]] != ((1 - rv) if r[3] else rv):
                    continue
                setbit(asg, r, rv)
            kept = subst(B[:nk], asg)
            if rv == 0:
                yield dict(asg), False, 'x=%d r=0' % xv, (xv, 0, None)
                continue
            if xv == 0:
                if sticky_const_one:
                    yield dict(asg), True, 'x=0 r=1 sticky(const)', (0, 1, 'ones')
                    continue
                a2 = dict(asg)
                bad = False
                for b in st_lits:
                    if b[2] in a2 and a2[b[2]] != (1 if b[3] else 0):
                        bad = True
                    setbit(a2, b, 0)
                if not bad:
                    yield a2, False, 'x=0 r=1 tie', (0, 1, 'tie')
                idxs = list(range(len(st_lits)))
                if not full and len(idxs) > 3:
                    idxs = sorted({0, len(idxs) // 2, len(idxs) - 1} | {i for i, b in enumerate(st_lits) if b[2] in key_ids})
                for j in idxs:
                    a3 = dict(asg)
                    bad = False
                    for b in st_lits[:j]:
                        if b[2] in a3 and a3[b[2]] != (1 if b[3] else 0):
                            bad = True
                        setbit(a3, b, 0)
                    bj = st_lits[j]
                    if bj[2] in a3 and a3[bj[2]] != (0 if bj[3] else 1):
                        bad = True
                    setbit(a3, bj, 1)
                    if not bad:
                        yield a3, True, 'x=0 r=1 sticky@%d' % j, (0, 1, ('top', j))
                continue
            run = []
            i = nk - 2
            while i >= 0 and is_lit(kept[i]):
                if not any(kept[i][2] == c[2] for c in run):
                    run.append(kept[i])
                    i -= 1
                else:
                    break
            ts = list(range(len(run) + 1))
            if not full and len(ts) > 4:
                ts = [0, 1, len(ts) // 2, len(ts) - 1]
            for t in ts:
                a4 = dict(asg)
                for b in run[:t]:
                    setbit(a4, b, 1)
                if t < len(run):
                    setbit(a4, run[t], 0)
                yield a4, True, 'x=1 r=1 ones=%d%s' % (t, '' if t < len(run) else '(all)'), (1, 1, None)


def clamp_const(bits, nk):
    """if every bit is constant apply the no-underflow / no-overflow rule; returns the list"""
    if bits is None or any(is_lit(b) for b in bits):
        return bits
    v = 0
    for b in bits:
        v = (v << 1) | b
    maxpos = (1 << nk) - 1
    if len(bits) > nk:      # increment overflowed into the sign position
        v = maxpos
    v = max(1, min(maxpos, v))
    return [(v >> (nk - 1 - i)) & 1 for i in range(nk)]


def instantiate(bits, asg_full):
    v = 0
    for b in bits:
        if is_lit(b):
            x = asg_full[b[2]]
            x = 1 - x if b[3] else x
        else:
            x = b
        v = (v << 1) | x
    return v


def float_cells(fmt, pty, full, rng):
    """(name, negative, input AFloat, expected msb-first n bits incl. sign 0, oracle sample) for every rounding cell of fmt -> pty"""
    n, es = pty.bits, pty.es
    nk = n - 1
    P = pty.posit
    mb = fmt.mbits
    for negative in (False, True):
        for ef in range(1, fmt.emax):
            scale = ef - fmt.bias
            if negative and not full and (scale % 5):
                continue
            sig = [lit(mb - 1 - i) for i in range(mb)]
            B = encoding_string(es, scale, sig)
            for asg, want, cname in rounding_cases(B, nk, full):
                if want is None:
                    continue
                want = clamp_const(want, nk)
                # input pattern
                bits = []   # lsb first
                for j in range(mb):
                    bits.append(asg.get(j, lit(j)))
                for i in range(fmt.ebits):
                    bits.append((ef >> i) & 1)
                bits.append(1 if negative else 0)
                pat = AInt(fmt.bits, False, None, None, 0, 0, sym=bits)
                # oracle self-check on one random completion
                full_asg = {j: asg.get(j, rng.getrandbits(1)) for j in range(mb)}
                m = sum(full_asg[j] << j for j in range(mb))
                val = Fraction(2) ** scale * (1 + Fraction(m, 1 << mb))
                assert P.encode(val) == instantiate(want, full_asg), ('oracle mismatch', fmt.bits, pty.name, scale, cname)
                yield ('%s e=%d %s' % ('-' if negative else '+', scale, cname), negative, AFloat(fmt.bits, pat), [0] + want)


def witness_assignment(got, want, all_lits):
    """an assignment of the literals under which the two vectors differ at the first differing position"""
    asg = {}
    for g, w in zip(got, want):
        if g == w:
            continue
        if is_lit(g) and is_lit(w):
            if g[2] == w[2]:
                pass            # same literal, opposite polarity: differs under every assignment
            else:
                asg[g[2]] = 1 if g[3] else 0     # g evaluates to 0
                asg[w[2]] = 0 if w[3] else 1     # w evaluates to 1
        elif is_lit(g):
            asg[g[2]] = (1 - w) ^ (1 if g[3] else 0)
        elif is_lit(w):
            asg[w[2]] = (1 - g) ^ (1 if w[3] else 0)
        break
    for j in all_lits:
        asg.setdefault(j, 0)
    return asg


def compare(ctx, rule, label, cname, out, negative, want, path, stats, concrete=None):
    """concrete(asg) -> (args, input description, expected result pattern as int): used to turn a symbolic mismatch into a definite witness"""
    if out.kind != 'return':
        if out.kind in ('panic', 'budget') and concrete is not None:
            # a panic seen on a symbolic path counts only when a concrete input of the cell reproduces it
            for cand in ({'*': 0}, {'*': 1}):
                try:
                    cargs, cdesc, cexp, crun = concrete(cand)
                    o2 = crun(cargs)
                except Exception:
                    continue
                if o2.kind in ('panic', 'budget'):
                    site = getattr(o2, 'site', None)
                    msg = 'on rounding cell %s the conversion does not return: %s %s at %s, e.g. for input %s' % (cname, o2.kind, o2.value, o2.where, cdesc)
                    if o2.kind == 'panic' and site:
                        from interp import site_key, entry_label
                        ctx.finding('PANIC', *site_key(site), msg, {'function': path, 'entry': label}, alt=('PANIC@', entry_label(label), site_key(site)[1]))
                    else:
                        ctx.finding(rule, label, 'no-return:' + str(o2.value).replace(' ', ''), msg, {'function': path})
                    return 'finding'
        return 'undecided'
    r = result_int(out.value)
    if r is None:
        return 'undecided'
    if negative:
        if r.negof is None and r.is_const():
            got = sym_msb_first(AInt.const(r.bits, False, -r.uval()))
        elif r.negof is None:
            return 'undecided'
        else:
            got = sym_msb_first(r.negof)
    else:
        got = sym_msb_first(r)
    if len(got) > len(want):
        want = [0] * (len(got) - len(want)) + list(want)
    if any(b is None for b in got):
        return 'undecided'
    if got != want:
        diff = [i for i, (g, w) in enumerate(zip(got, want)) if g != w] or ['width']
        wit = ''
        if concrete is not None:
            lits = sorted({b[2] for b in list(got) + list(want) if is_lit(b)})
            asg = witness_assignment(got, want, lits)
            # candidates: the assignment read off the differing bit, then the corners of the cell (a path of the enumeration holds on part of
            # the cell only; the corners are where threshold tests change)
            cands = [asg, dict(asg, **{'*': 1}), {'*': 1}, {'*': 0}]     # '*' = value of every literal of the cell that is not named
            confirmed = False
            try:
                for cand in cands:
                    cargs, cdesc, cexp, crun = concrete(cand)
                    o2 = crun(cargs)
                    r2 = result_int(o2.value) if o2.kind == 'return' else None
                    if r2 is not None and r2.is_const():
                        if r2.uval() != cexp & mask(r2.bits):
                            wit = '; e.g. input %s gives %#x, the correctly rounded result is %#x' % (cdesc, r2.uval(), cexp & mask(r2.bits))
                            confirmed = True
                            break
                    elif o2.kind in ('panic', 'budget'):
                        wit = '; e.g. input %s: %s %s' % (cdesc, o2.kind, o2.value)
                        confirmed = True
                        break
            except Exception as ex:    # witness construction is best effort
                confirmed = False
            if not confirmed:
                # no concrete input of the cell reproduces the difference: the symbolic comparison is not trusted, no alarm
                ctx.undecided.setdefault('rounding_inconsistent', []).append('%s %s' % (label, cname))
                return 'undecided'
        f = ctx.finding(rule, label, 'rounding',
                        'on rounding cell %s the result differs from the correctly rounded encoding at bit positions (msb=0) %s: got %s, specification %s%s'
                        % (cname, diff[:8], fmt_bits(got), fmt_bits(want), wit), {'function': path, 'cells': []})
        f.details['cells'].append(cname)
        if len(f.details['cells']) > 1:
            f.msg = f.msg.split(' [and ')[0] + ' [and %d more cells, e.g. %s]' % (len(f.details['cells']) - 1, f.details['cells'][1])
        return 'finding'
    ctx.sample({'rule': rule, 'fn': label, 'cell': cname, 'result': 'identical to the correctly rounded encoding'}, limit=8)
    return 'proved'


def fmt_bits(bits):
    out = []
    run = ''
    for b in bits:
        if is_lit(b):
            if run:
                out.append(run)
                run = ''
            out.append(('m%d' if not b[3] else '~m%d') % b[2])
        else:
            run += str(b)
    if run:
        out.append(run)
    return ' '.join(out)


def decide(ctx, I, rule, label, cname, path, mkargs, gargs, negative, want, concrete, stats, sub_cells=None):
    """decide one rounding cell: determinate run; if a branch is undecided, every path of the may-mode exploration must agree with the
    specification; if that is not complete, the cell is partitioned once more (sub_cells)"""
    stats['cells'] += 1
    if getattr(ctx, 'over_budget', None) and ctx.over_budget():
        stats['undecided'] += 1
        stats['not_decided_soft_budget'] += 1
        return
    try:
        out = I.run(path, mkargs(), gargs)
        outs = [out]
        first = None
        if out.kind != 'undecided':
            n_inc = len(ctx.undecided.get('rounding_inconsistent', []))
            first = compare(ctx, rule, label, cname, out, negative, want, path, stats, concrete)
            if first == 'proved':
                stats['proved'] += 1
                return
            if first == 'finding':
                stats['refuted'] += 1
                return
            del ctx.undecided.get('rounding_inconsistent', [])[n_inc:]
        # an undecided branch (here or inside a callee, whose result is then unknown): enumerate the paths
        outs, complete = I.explore(path, mkargs, gargs, max_paths=64)
        outs = [o for o in outs if o.kind != 'infeasible']
        if not complete or any(o.kind == 'undecided' for o in outs) or not outs:
            outs = None
    except Exception as ex:
        stats['unsupported'] += 1
        ctx.undecided.setdefault('rounding_unsupported', []).append('%s %s: %s' % (label, cname, str(ex)[:80]))
        return
    if outs is None:
        if sub_cells is None:
            stats['undecided'] += 1
            return
        stats['cells'] -= 1
        for sname, mk2, want2, conc2 in sub_cells():
            decide(ctx, I, rule, label, cname + ' ' + sname, path, mk2, gargs, negative, want2, conc2, stats, None)
        return
    n_inc = len(ctx.undecided.get('rounding_inconsistent', []))
    res = [compare(ctx, rule, label, cname, o, negative, want, path, stats, concrete) for o in outs]
    if 'finding' in res:
        stats['refuted'] += 1
    elif all(r_ == 'proved' for r_ in res):
        stats['proved'] += 1
        if len(res) > 1:
            stats['proved_by_path_enumeration'] += 1
    elif sub_cells is not None:
        # a path could not be compared (it holds on part of the cell only), or an undecided test flowed into the result as data: partition the cell
        del ctx.undecided.get('rounding_inconsistent', [])[n_inc:]
        if not ctx.undecided.get('rounding_inconsistent', True):
            del ctx.undecided['rounding_inconsistent']
        stats['cells'] -= 1
        for sname, mk2, want2, conc2 in sub_cells():
            decide(ctx, I, rule, label, cname + ' ' + sname, path, mk2, gargs, negative, want2, conc2, stats, None)
    else:
        stats['undecided'] += 1


def refine_cells(arg_bits, want):
    """split a cell whose remaining literals are all free into "all literals 0" and "literal j is the highest one set" (a partition)"""
    lits = sorted({b[2] for b in arg_bits if is_lit(b)}, reverse=True)
    out = [({j: 0 for j in lits}, 'lits=0')]
    for i, j in enumerate(lits):
        a = {h: 0 for h in lits[:i]}
        a[j] = 1
        out.append((a, 'top@%d' % j))
    return out


def check_float_to_posit(ctx, prog, rule, label, path, fmt, pty, full, gargs=None, seed=1):
    import collections
    I = Interp(prog, max_steps=200000)
    stats = collections.Counter()
    rng = random.Random(seed)
    P = pty.posit

    def mkc(bits):
        def concrete(asg):
            u = 0
            for i, b in enumerate(bits):
                u |= (asg.get(b[2], asg.get('*', 0)) if is_lit(b) else b) << i
            v = fmt.decode(u)
            return [AFloat(fmt.bits, AInt.const(fmt.bits, False, u))], '%#x (%s)' % (u, float(v)), P.encode(v), lambda a: I.run(path, a, gargs or {})
        return concrete
    for cname, negative, arg, want in float_cells(fmt, pty, full, rng):
        bits = arg.pat.symbits()

        def subs(bits=bits, want=want):
            for asg, sub in refine_cells(bits, want):
                b2 = subst(bits, asg)
                yield sub, (lambda b2=b2: [AFloat(fmt.bits, AInt(fmt.bits, False, None, None, 0, 0, sym=list(b2)))]), subst(want, asg), mkc(b2)
        decide(ctx, I, rule, label, cname, path, (lambda bits=bits: [AFloat(fmt.bits, AInt(fmt.bits, False, None, None, 0, 0, sym=list(bits)))]),
               gargs or {}, negative, want, mkc(bits), stats, subs)
    for k, v in stats.items():
        ctx.count('rounding_%s' % k, v)
    return stats


def posit_source_cells(src, full, dst_es, nk, clamp=True):
    """rounding cells of a source posit format against a target with nk kept bits"""
    from rules_routing import regime_cells
    for negative in (False, True):
        for k, e, fl, known in regime_cells(src.bits, src.es):
            scale = k * (1 << src.es) + e
            lits = [lit(fl - 1 - i) for i in range(fl)]
            B = encoding_string(dst_es, scale, lits)
            for asg, want, cname in rounding_cases(B, nk, full):
                if want is None:
                    continue
                bits = [0] + list(known) + subst(lits, asg)      # msb first
                yield ('%s k=%d e=%d %s' % ('-' if negative else '+', k, e, cname), negative, scale, bits, asg, clamp_const(want, nk) if clamp else want)


def posit_input(src, bits_msb_first, negative, tykey=None, pad=0):
    """pad: zero bits appended below the pattern (generic-width posits are left-aligned in 32 bits)"""
    w = src.bits + pad
    y = AInt(w, False, None, None, 0, 0, sym=list(reversed(list(bits_msb_first) + [0] * pad)))
    ys = aval.cast_int(y, w, True)
    if negative:
        ys, _ = aval.neg(ys)
    return AAgg(tykey or src.tykey, [ys])


class Fmt:
    """a posit format by (bits, es) for the generic-width types"""
    def __init__(self, name, bits, es, tykey=None, pad=0, gargs=None):
        self.name, self.bits, self.es, self.tykey = name, bits, es, tykey
        self.posit = S.Posit(bits, es)
        self.pad = pad
        self.gargs = gargs or {}


def check_posit_to_posit(ctx, prog, rule, label, path, src, dst, full, gargs=None, src_tykey=None, seed=1, src_pad=0, dst_pad=0, cell_label=''):
    import collections
    I = Interp(prog, max_steps=200000)
    stats = collections.Counter()
    rng = random.Random(seed)
    PS, PD = src.posit, dst.posit
    nk = dst.bits - 1
    sw = src.bits + src_pad

    def mkc(bits, negative):
        def concrete(asg):
            u = 0
            for b in bits:
                u = (u << 1) | (asg.get(b[2], asg.get('*', 0)) if is_lit(b) else b)
            if negative:
                u = (-u) & mask(src.bits)
            v = PS.decode(u)
            ua = u << src_pad
            sv = ua - (1 << sw) if ua >> (sw - 1) else ua
            return ([AAgg(src_tykey or src.tykey, [AInt.const(sw, True, sv)])], '%s%#x (%s)' % (cell_label, ua, float(v)), PD.encode(v) << dst_pad,
                    lambda a: I.run(path, a, gargs or {}))
        return concrete
    for cname, negative, scale, bits, asg, want in posit_source_cells(src, full, dst.es, nk):
        cname = cell_label + cname
        # oracle self-check on one random completion
        fa = {}
        u = 0
        for b in bits:
            if is_lit(b):
                fa[b[2]] = rng.getrandbits(1)
            u = (u << 1) | (fa[b[2]] if is_lit(b) else b)
        assert PD.encode(PS.decode(u)) == instantiate(want, fa), ('oracle mismatch', label, cname)
        wv = [0] + list(want) + [0] * dst_pad

        def subs(bits=bits, wv=wv, negative=negative):
            for a2, sub in refine_cells(list(reversed(bits)), wv):
                b2 = subst(bits, a2)
                yield sub, (lambda b2=b2: [posit_input(src, b2, negative, src_tykey, src_pad)]), subst(wv, a2), mkc(b2, negative)
        decide(ctx, I, rule, label, cname, path, (lambda bits=bits, negative=negative: [posit_input(src, bits, negative, src_tykey, src_pad)]),
               gargs or {}, negative, wv, mkc(bits, negative), stats, subs)
    for k_, v in stats.items():
        ctx.count('rounding_%s' % k_, v)
    return stats


# ------------------------------------------------------------------------------------------------ integers

def int_input(bits, signed, msb_first, negative):
    y = AInt(bits, False, None, None, 0, 0, sym=list(reversed(msb_first)))
    ys = aval.cast_int(y, bits, signed)
    if negative:
        ys, _ = aval.neg(ys)
    return ys


def check_int_to_posit(ctx, prog, rule, label, path, ibits, signed, pty, full, gargs=None, seed=1, pad=0, cell_label=''):
    """every non-zero integer of the type: cells (sign, position L of the leading one, rounding case); bits below L symbolic"""
    import collections
    I = Interp(prog, max_steps=200000)
    stats = collections.Counter()
    rng = random.Random(seed)
    P = pty.posit
    nk = pty.bits - 1

    def mkc(bits, negative):
        def concrete(asg):
            u = 0
            for b in bits:
                u = (u << 1) | (asg.get(b[2], asg.get('*', 0)) if is_lit(b) else b)
            v = -u if negative else u
            return [AInt.const(ibits, signed, v)], '%s%d' % (cell_label, v), P.encode(Fraction(v)) << pad, lambda a: I.run(path, a, gargs or {})
        return concrete
    for negative in ((False, True) if signed else (False,)):
        top = ibits - 1 if (negative or not signed) else ibits - 2
        for L in range(0, top + 1):
            lits = [lit(L - 1 - i) for i in range(L)]
            if negative and L == ibits - 1:
                lits = [0] * L          # only MIN has its leading one there
            B = encoding_string(pty.es, L, lits)
            for asg, want, cname in rounding_cases(B, nk, full):
                if want is None:
                    continue
                want = clamp_const(want, nk)
                bits = [0] * (ibits - 1 - L) + [1] + subst(lits, asg)
                cn = '%s%s L=%d %s' % (cell_label, '-' if negative else '+', L, cname)
                fa = {}
                u = 0
                for b in bits:
                    if is_lit(b):
                        fa[b[2]] = rng.getrandbits(1)
                    u = (u << 1) | (fa[b[2]] if is_lit(b) else b)
                assert P.encode(Fraction(u)) == instantiate(want, fa), ('oracle mismatch', label, cn)

                def subs(bits=bits, want=want, negative=negative):
                    for a2, sub in refine_cells(list(reversed(bits)), want):
                        b2 = subst(bits, a2)
                        yield sub, (lambda b2=b2: [int_input(ibits, signed, b2, negative)]), [0] + subst(want, a2) + [0] * pad, mkc(b2, negative)
                decide(ctx, I, rule, label, cn, path, (lambda bits=bits, negative=negative: [int_input(ibits, signed, bits, negative)]),
                       gargs or {}, negative, [0] + want + [0] * pad, mkc(bits, negative), stats, subs)
    for k_, v in stats.items():
        ctx.count('rounding_%s' % k_, v)
    return stats


def check_posit_to_int(ctx, prog, rule, label, path, pty, ibits, signed, full, gargs=None, seed=1, pad=0, tykey=None, cell_label=''):
    """every non-zero real posit: cells (sign, regime, exponent, rounding case at the units position); result = nearest integer, ties
    to even, clamped to the integer type"""
    import collections
    from rules_routing import regime_cells
    I = Interp(prog, max_steps=200000)
    stats = collections.Counter()
    rng = random.Random(seed)
    P = pty.posit
    lo = -(1 << (ibits - 1)) if signed else 0
    hi = (1 << (ibits - 1)) - 1 if signed else (1 << ibits) - 1

    def mkc(bits, negative):
        def concrete(asg):
            u = 0
            for b in bits:
                u = (u << 1) | (asg.get(b[2], asg.get('*', 0)) if is_lit(b) else b)
            if negative:
                u = (-u) & mask(pty.bits)
            v = P.decode(u)
            ua = u << pad
            w_ = pty.bits + pad
            sv = ua - (1 << w_) if ua >> (w_ - 1) else ua
            return ([AAgg(tykey or pty.tykey, [AInt.const(w_, True, sv)])], '%s%#x (%s)' % (cell_label, ua, float(v)), S.to_int_spec(v, lo, hi) & mask(ibits),
                    lambda a: I.run(path, a, gargs or {}))
        return concrete
    for negative in (False, True):
        for k, e, fl, known in regime_cells(pty.bits, pty.es):
            scale = k * (1 << pty.es) + e
            lits = [lit(fl - 1 - i) for i in range(fl)]
            if scale >= 0:
                B = [1] + lits + [0] * max(0, scale - fl)
                nk = scale + 1
            else:
                B = [0] + [0] * (-scale - 1) + [1] + lits
                nk = 1
            for asg, want, cname in rounding_cases(B, nk, full):
                if want is None:
                    continue
                bits = [0] + list(known) + subst(lits, asg)
                cn = '%s%s k=%d e=%d %s' % (cell_label, '-' if negative else '+', k, e, cname)
                # clamp to the integer type
                wlen = len(want)
                is_const = all(not is_lit(b) for b in want)
                neg_result = negative
                if negative and not signed:
                    want_bits, neg_result = [0] * ibits, False
                elif is_const:
                    m_ = instantiate(want, {})
                    v = max(lo, min(hi, -m_ if negative else m_))
                    want_bits, neg_result = [((abs(v)) >> (ibits - 1 - i)) & 1 for i in range(ibits)], v < 0
                    if v == lo and signed and v < 0:
                        want_bits = [1] + [0] * (ibits - 1)
                else:
                    limit = ibits - 1 if signed else ibits     # magnitudes below 2^limit fit; a negative magnitude >= 2^(ibits-1) gives MIN either way
                    if wlen > limit:
                        v = lo if negative else hi
                        want_bits = [((abs(v)) >> (ibits - 1 - i)) & 1 for i in range(ibits)]
                    else:
                        want_bits = [0] * (ibits - wlen) + list(want)
                fa = {}
                u = 0
                for b in bits:
                    if is_lit(b):
                        fa[b[2]] = rng.getrandbits(1)
                    u = (u << 1) | (fa[b[2]] if is_lit(b) else b)
                val = P.decode(u)
                expect = S.to_int_spec(-val if negative else val, lo, hi)
                assert abs(expect) == instantiate(want_bits, fa) or (expect & mask(ibits)) == instantiate(want_bits, fa), ('oracle mismatch', label, cn, expect, instantiate(want_bits, fa))

                def subs(bits=bits, want_bits=want_bits, negative=negative, neg_result=neg_result):
                    for a2, sub in refine_cells(list(reversed(bits)), want_bits):
                        b2 = subst(bits, a2)
                        yield sub, (lambda b2=b2: [posit_input(pty, b2, negative, tykey, pad)]), subst(want_bits, a2), mkc(b2, negative)
                decide(ctx, I, rule, label, cn, path, (lambda bits=bits, negative=negative: [posit_input(pty, bits, negative, tykey, pad)]),
                       gargs or {}, neg_result, want_bits, mkc(bits, negative), stats, subs)
    for k_, v in stats.items():
        ctx.count('rounding_%s' % k_, v)
    return stats


# ------------------------------------------------------------------------------------------------ round / floor / ceil / trunc

def directed_cases(B, nk, up, full=True):
    """cases for rounding a magnitude toward zero (up=False) or away from zero when any fraction bit is set (up=True)"""
    kept, frac = B[:nk], B[nk:]
    if not up or not frac:
        yield {}, list(kept), 'toward-zero'
        return
    flits = [b for b in frac if is_lit(b)]
    variants = []
    if any(b == 1 for b in frac):
        variants.append(({}, True, 'frac>0(const)'))
    else:
        a0 = {}
        for b in flits:
            setbit(a0, b, 0)
        variants.append((a0, False, 'frac=0'))
        idxs = list(range(len(flits)))
        if not full and len(idxs) > 3:
            idxs = [0, len(idxs) // 2, len(idxs) - 1]
        for j in idxs:
            a = {}
            for b in flits[:j]:
                setbit(a, b, 0)
            setbit(a, flits[j], 1)
            variants.append((a, True, 'frac top@%d' % j))
    for a, inc, name in variants:
        if not inc:
            yield a, subst(kept, a), name
            continue
        k2 = subst(kept, a)
        run = []
        i = nk - 1
        while i >= 0 and is_lit(k2[i]):
            run.append(k2[i])
            i -= 1
        ts = list(range(len(run) + 1))
        if not full and len(ts) > 4:
            ts = [0, 1, len(ts) // 2, len(ts) - 1]
        for t in ts:
            a4 = dict(a)
            for b in run[:t]:
                setbit(a4, b, 1)
            if t < len(run):
                setbit(a4, run[t], 0)
            yield a4, sym_inc(subst(kept, a4)), '%s ones=%d' % (name, t)


def check_posit_round_fn(ctx, prog, rule, label, path, pty, mode, spec_fn, full=True, seed=1):
    """mode: 'round' (nearest, ties to even), 'floor', 'ceil', 'trunc'; spec_fn: the exact function on rationals (oracle self-check)"""
    import collections
    from rules_routing import regime_cells
    I = Interp(prog, max_steps=200000)
    stats = collections.Counter()
    rng = random.Random(seed)
    P = pty.posit
    n = pty.bits

    def mkc(bits, negative):
        def concrete(asg):
            u = 0
            for b in bits:
                u = (u << 1) | (asg.get(b[2], asg.get('*', 0)) if is_lit(b) else b)
            if negative:
                u = (-u) & mask(n)
            v = P.decode(u)
            sv = u - (1 << n) if u >> (n - 1) else u
            return [AAgg(pty.tykey, [AInt.const(n, True, sv)])], '%#x (%s)' % (u, float(v)), P.encode(spec_fn(v)), lambda a: I.run(path, a, {})
        return concrete
    for negative in (False, True):
        for k, e, fl, known in regime_cells(n, pty.es):
            scale = k * (1 << pty.es) + e
            lits = [lit(fl - 1 - i) for i in range(fl)]
            if scale >= 0:
                B = [1] + lits + [0] * max(0, scale - fl)
                nk = scale + 1
            else:
                B = [0] + [0] * (-scale - 1) + [1] + lits
                nk = 1
            if mode == 'round':
                gen = rounding_cases(B, nk, full)
            else:
                up = (mode == 'ceil' and not negative) or (mode == 'floor' and negative)
                gen = directed_cases(B, nk, up, full)
            for asg, M, cname in gen:
                if M is None:
                    continue
                M = list(M)
                while len(M) > 1 and M[0] == 0:
                    M = M[1:]
                if all(not is_lit(b) for b in M):
                    v = instantiate(M, {})
                    enc = P.encode(Fraction(v)) if v else 0
                    want = [(enc >> (n - 1 - i)) & 1 for i in range(n)]
                else:
                    if not (scale >= 0 and len(M) == scale + 1 and M[0] == 1):
                        stats['cells'] += 1
                        stats['unsupported'] += 1
                        continue
                    want = ([0] + list(known) + M[1:1 + fl] + [0] * n)[:n]
                bits = [0] + list(known) + subst(lits, asg)
                cn = '%s k=%d e=%d %s' % ('-' if negative else '+', k, e, cname)
                fa = {}
                u = 0
                for b in bits:
                    if is_lit(b):
                        fa[b[2]] = rng.getrandbits(1)
                    u = (u << 1) | (fa[b[2]] if is_lit(b) else b)
                val = P.decode(u)
                ex = spec_fn(-val if negative else val)
                assert P.encode(abs(ex)) == instantiate(want, fa) if ex != 0 else instantiate(want, fa) == 0, ('oracle mismatch', label, cn)

                def subs(bits=bits, want=want, negative=negative):
                    for a2, sub in refine_cells(list(reversed(bits)), want):
                        b2 = subst(bits, a2)
                        yield sub, (lambda b2=b2: [posit_input(pty, b2, negative)]), subst(want, a2), mkc(b2, negative)
                decide(ctx, I, rule, label, cn, path, (lambda bits=bits, negative=negative: [posit_input(pty, bits, negative)]),
                       {}, negative, want, mkc(bits, negative), stats, subs)
    for k_, v in stats.items():
        ctx.count('rounding_%s' % k_, v)
    return stats


# ------------------------------------------------------------------------------------------------ quire -> posit

def quire_state(q, bits_msb_first, negative=False):
    """AAgg quire state from the T bits (msb first) of a magnitude; `negative` only for single-field quires (two's complement via negof)"""
    from aval import AAgg as _AAgg
    fields = []
    pos = 0
    for (fb, signed) in q.fields:
        chunk = bits_msb_first[pos:pos + fb]
        pos += fb
        v = AInt(fb, False, None, None, 0, 0, sym=list(reversed(chunk)))
        v = aval.cast_int(v, fb, signed)
        if negative:
            v, _ = aval.neg(v)
        fields.append(v)
    return _AAgg(q.tykey, fields)


def neg_bits(bits_msb_first, l):
    """two's complement of a T-bit magnitude whose lowest set bit is at position l (bit l = 1, bits below 0): msb-first list"""
    T = len(bits_msb_first)
    out = []
    for i, b in enumerate(bits_msb_first):
        posn = T - 1 - i
        if posn > l:
            out.append((b[0], b[1], b[2], not b[3]) if is_lit(b) else 1 - b)
        else:
            out.append(b)
    return out


def check_quire_to_posit(ctx, prog, rule, q, frac_bits, full, seed=1, p_step=1, ps=None):
    """Q::to_posit on rounding cells of the accumulator: (sign, position p of the leading one of the magnitude, rounding case); the other
    accumulator bits symbolic.  Multi-limb quires: negative states additionally fix the position l of the lowest set bit (the limbs of a
    two's complement are literals only then); l is sampled."""
    import collections
    from quire_common import self_ref
    pty = q.pty
    P = pty.posit
    n = pty.bits
    nk = n - 1
    T = sum(b for b, _ in q.fields)
    path = prog.inherent(q.tykey, 'to_posit')
    label = '%s::to_posit' % q.name
    I = Interp(prog, max_steps=400000)
    stats = collections.Counter()
    rng = random.Random(seed)
    single = len(q.fields) == 1 and T <= 64      # negative states through a symbolic negation (negof) only for one machine word

    def const_state(u):
        fields = []
        sh = T
        for (fb, signed) in q.fields:
            sh -= fb
            c = (u >> sh) & mask(fb)
            if signed and c >> (fb - 1):
                c -= 1 << fb
            fields.append(AInt.const(fb, signed, c))
        return AAgg(q.tykey, fields)

    def mkc(bits, negative):
        def concrete(asg):
            u = 0
            for b in bits:
                bit = (asg.get(b[2], asg.get('*', 0)) if is_lit(b) else b)
                if is_lit(b) and b[3]:
                    bit = 1 - bit
                u = (u << 1) | bit
            mag = ((-u) & mask(T)) if negative and not single else u
            val = Fraction(mag, 1 << frac_bits)
            if negative:
                val = -val
            uu = ((-u) & mask(T)) if (negative and single) else u
            return ([self_ref(const_state(uu))], 'state %#x (%s)' % (uu, float(val)), P.encode(val), lambda a: I.run(path, a, {}))
        return concrete
    if ps is None:
        ps = list(range(0, T - 1, p_step))
    for negative in (False, True):
        for p in ps:
            scale = p - frac_bits
            lits = [lit(p - 1 - i) for i in range(p)]
            B = encoding_string(pty.es, scale, lits)
            # sticky positions always included: limb boundaries and the edge of the 64-bit window below the leading one
            keys = {j for j in range(p) if j % 64 in (0, 63)} | {p - 62, p - 63, p - 64, p - 65}
            for asg, want, cname in rounding_cases(B, nk, full, keys):
                if want is None:
                    continue
                want = clamp_const(want, nk)
                mag = [0] * (T - 1 - p) + [1] + subst(lits, asg)
                cn = '%s p=%d %s' % ('-' if negative else '+', p, cname)
                variants = []
                if not negative or single:
                    variants.append((cn, mag, {}))
                else:
                    # lowest set bit l: candidates among the still-free literals and the forced ones
                    free = [b[2] for b in mag if is_lit(b)]
                    ones = [T - 1 - i for i, b in enumerate(mag) if b == 1]
                    lowest_forced = min(ones)
                    cand = sorted({j for j in free if j < lowest_forced}, reverse=True)
                    ls = [lowest_forced] + (cand if full else [c for c in (cand[:1] + cand[len(cand) // 2:len(cand) // 2 + 1] + cand[-2:])])
                    for l in sorted(set(ls), reverse=True):
                        a2 = {}
                        m2 = []
                        for i, b in enumerate(mag):
                            posn = T - 1 - i
                            if is_lit(b) and posn < l:
                                a2[b[2]] = 0
                                m2.append(0)
                            elif is_lit(b) and posn == l:
                                a2[b[2]] = 1
                                m2.append(1)
                            else:
                                m2.append(b)
                        # the extra assignment must keep the case (sticky class etc.): accept only if the case's own assignment is respected
                        if any(asg.get(k_) is not None and asg[k_] != v_ for k_, v_ in a2.items()):
                            continue
                        w2 = subst(want, a2)
                        variants.append(('%s l=%d' % (cn, l), neg_bits(m2, l), a2, w2))
                for var in variants:
                    if len(var) == 3:
                        vname, bits, a2 = var
                        w = want
                    else:
                        vname, bits, a2, w = var
                    # oracle self-check
                    fa = {}
                    u = 0
                    for b in bits:
                        if is_lit(b):
                            fa.setdefault(b[2], rng.getrandbits(1))
                            bit = fa[b[2]] ^ (1 if b[3] else 0)
                        else:
                            bit = b
                        u = (u << 1) | bit
                    magv = ((-u) & mask(T)) if (negative and not single) else u
                    assert P.encode(Fraction(magv, 1 << frac_bits)) == instantiate(w, fa), ('oracle mismatch', label, vname)
                    neg_sym = negative and single
                    decide(ctx, I, rule, label, vname, path,
                           (lambda bits=bits, neg_sym=neg_sym: [self_ref(quire_state(q, bits, neg_sym))]),
                           {}, negative, [0] + list(w), mkc(bits, negative), stats, None)
    for k_, v in stats.items():
        ctx.count('rounding_%s' % k_, v)
    return stats


# ------------------------------------------------------------------------------------------------ process-parallel driver

class _Collector:
    """stands in for Ctx inside a worker process: records findings / samples / notes, merged by the parent"""
    def __init__(self):
        self.findings = []
        self.samples = []
        self.undecided = {}
        self.cov = {}
        self.notes = []

    def finding(self, rule, fn, instance, msg, details=None, prop=None, alt=None):
        for f in self.findings:
            if (f.rule, f.fn, f.instance) == (rule, fn, instance):
                return f
        from framework import Finding
        f = Finding('', rule, fn, instance, msg, details, alt)
        self.findings.append(f)
        return f

    def sample(self, s_, limit=12):
        if len(self.samples) < limit:
            self.samples.append(s_)

    def count(self, k, n=1):
        self.cov[k] = self.cov.get(k, 0) + n

    def over_budget(self):
        import time
        return _DEADLINE[0] is not None and time.time() > _DEADLINE[0]


_JOB = {}
_DEADLINE = [None]     # soft wall-clock budget of the parent Ctx, inherited by the forked workers


def _set_deadline(ctx):
    if getattr(ctx, 'soft_budget_s', None) is not None and getattr(ctx, 't0', None) is not None:
        _DEADLINE[0] = ctx.t0 + ctx.soft_budget_s


def _quire_worker(ps):
    c = _Collector()
    st = check_quire_to_posit(c, _JOB['prog'], _JOB['rule'], _JOB['q'], _JOB['fb'], _JOB['full'], ps=ps)
    return dict(st), [(f.rule, f.fn, f.instance, f.msg, f.details) for f in c.findings], c.samples, c.undecided


def parallel_quire_to_posit(ctx, prog, rule, q, frac_bits, full, p_step=1, workers=None):
    import collections
    import multiprocessing as mp
    import os
    T = sum(b for b, _ in q.fields)
    # sampled leading-one positions always include the limb boundaries (the leading one on the top / bottom bits of a limb)
    ps = sorted(set(range(0, T - 1, p_step)) | {p_ for p_ in range(T - 1) if p_ % 64 in (0, 1, 62, 63)})
    workers = workers or min(16, os.cpu_count() or 4, max(1, len(ps) // 4))
    _set_deadline(ctx)
    if workers <= 1:
        return check_quire_to_posit(ctx, prog, rule, q, frac_bits, full, ps=ps)
    _JOB.update(prog=prog, rule=rule, q=q, fb=frac_bits, full=full)
    chunks = [ps[i::workers * 4] for i in range(workers * 4)]
    chunks = [c for c in chunks if c]
    tot = collections.Counter()
    with mp.get_context('fork').Pool(workers) as pool:
        for st, fs, samples, und in pool.imap_unordered(_quire_worker, chunks):
            tot.update(st)
            for rule_, fn, inst, msg, det in fs:
                f = ctx.finding(rule_, fn, inst, msg, det)
                if det and det.get('cells') and f.details is not det:
                    f.details.setdefault('cells', []).extend(det['cells'])
            for s_ in samples:
                ctx.sample(s_, limit=8)
            for k, v in und.items():
                ctx.undecided.setdefault(k, []).extend(v if isinstance(v, list) else [v])
    for k_, v in tot.items():
        ctx.count('rounding_%s' % k_, v)
    return tot


# ------------------------------------------------------------------------------------------------ one symbolic operand: a (+) b with a constant

def _sym_sum(abits, bbits):
    """a + b on position -> bit maps (constants / literals); None if a literal meets a one, another literal or a carry (then not a routing)"""
    lo = min(list(abits) + list(bbits))
    hi = max(list(abits) + list(bbits)) + 1
    out = {}
    carry = 0
    for pos in range(lo, hi + 1):
        x = abits.get(pos, 0)
        y = bbits.get(pos, 0)
        if is_lit(x) or is_lit(y):
            if is_lit(x) and is_lit(y):
                return None
            other = y if is_lit(x) else x
            if other != 0 or carry != 0:
                return None
            out[pos] = x if is_lit(x) else y
            continue
        t = x + y + carry
        out[pos] = t & 1
        carry = t >> 1
    return out


def _sym_diff(abits, bbits, l):
    """a - b (a > b > 0) on position -> bit maps; l = position of the lowest set bit of b (bbits[l] == 1, everything below 0).
    Uses a + (2^W - b) - 2^W with the two's complement of b written bit by bit (complemented literals above l)."""
    lo = min(list(abits) + list(bbits))
    hi = max(list(abits) + list(bbits)) + 1
    nb = {}
    for pos in range(lo, hi + 1):
        y = bbits.get(pos, 0)
        if pos < l:
            nb[pos] = 0
        elif pos == l:
            nb[pos] = 1
        else:
            nb[pos] = (y[0], y[1], y[2], not y[3]) if is_lit(y) else 1 - y
    sm = _sym_sum(abits, nb)
    if sm is None:
        return None
    # drop the 2^W term: the sum's bit at hi + 1 (carry out) must be 1 and is removed
    top = max(sm)
    if sm.get(top) != 1:
        return None
    del sm[top]
    return sm


def _value_bits(scale, frac_bits):
    """position -> bit of 2^scale * 1.frac (frac msb first)"""
    d = {scale: 1}
    for i, b in enumerate(frac_bits):
        d[scale - 1 - i] = b
    return d


def _frac_len(pty, scale):
    k = scale >> pty.es
    reg = (k + 2) if k >= 0 else (-k + 1)
    return max(0, pty.bits - 1 - reg - pty.es)


def add_cells(pty, full, scales=None, gmax=None, op='add', t=0, fd=0):
    """cells for a + b, a > b > 0: a = 2^s * 1.F constant (F = 0 or all ones), b any posit of the regime cell g+1 binades below the lowest
    set bit region of a such that the sum is a routing of b's bits; then the rounding cases of the sum.
    yields (name, a_encoding, b bits msb first, expected n-1 bits)"""
    p = pty.posit
    n, es = pty.bits, pty.es
    nk = n - 1
    maxs = (n - 2) << es
    for s in (scales if scales is not None else range(-maxs, maxs)):
        fa = _frac_len(pty, s)
        for Fname, F in (('1.0', [0] * fa), ('1.1..1', [1] * fa)):
            if fa == 0 and Fname != '1.0':
                continue
            a_enc = p.encode(Fraction(2) ** s * (1 + (Fraction(int(''.join(map(str, F)), 2), 1 << fa) if fa else 0)))
            if p.decode(a_enc) != Fraction(2) ** s * (1 + (Fraction(int(''.join(map(str, F)), 2), 1 << fa) if fa else 0)):
                continue        # not representable (the regime cuts into the exponent field)
            abits = _value_bits(s, F)
            low_a = s - fa            # lowest position a can express
            # b's leading one at sb: for F = 1.1..1 it must meet the lowest one of a (sb = low_a) or lie below a entirely (sb < low_a)
            g_hi = gmax if gmax is not None else (fa + 6)
            for sb in range(s - 1, s - g_hi - 1, -1):
                if sb < -maxs:
                    break
                sbi = sb - t         # b's own scale (the product 2^t * b sits at sb)
                if not (-maxs <= sbi < maxs):
                    continue
                fb = _frac_len(pty, sbi)
                if p.decode(p.encode(Fraction(2) ** sbi)) != Fraction(2) ** sbi:
                    continue
                lits0 = [lit(fb - 1 - i) for i in range(fb)]
                if fd:
                    # the product is b * (1 + 2^-fd): b keeps only its top fd - 1 fraction bits (the rest constant zero) so that the two copies
                    # of its significand do not overlap: a routing with set bits at the top and fd places further down
                    lits0 = [lit(fb - 1 - i) if i < fd - 1 else 0 for i in range(fb)]
                kb = sbi >> es
                eb = sbi - (kb << es)
                regb = [1] * (kb + 1) + [0] if kb >= 0 else [0] * (-kb) + [1]
                known_b = (regb + [(eb >> (es - 1 - i)) & 1 for i in range(es)])[:n - 1]
                # subtraction: partition b by its lowest set bit (the hidden one, or fraction literal j); addition: one variant
                variants = [('', lits0, None)]
                if op == 'sub':
                    if sb >= s - 1:
                        continue        # cancellation of the leading bit: the position of the result's leading one is not fixed by the cell
                    variants = [(' frac=0', [0] * fb, sb)]
                    jlo = (fb - (fd - 1)) if fd else 0          # with a two-bit factor only the top fd - 1 fraction bits of b are free
                    js = list(range(max(0, jlo), fb)) if (full or fb <= 4) else sorted({j_ for j_ in (jlo, jlo + 1, (jlo + fb) // 2, fb - 1) if max(0, jlo) <= j_ < fb})
                    for j in js:
                        variants.append((' low@%d' % j, [lit(fb - 1 - i) if (fb - 1 - i) > j else (1 if (fb - 1 - i) == j else 0) for i in range(fb)], sb - fb + j))
                if fd and op == 'sub':
                    # lowest set bit of the product b * (1 + 2^-fd): that of the lower copy
                    variants = [(vn, ls, (l_ - fd)) for vn, ls, l_ in variants]
                for vname, lits, l in variants:
                    if fd and any(is_lit(x) and (fb - 1 - i) < fb - (fd - 1) for i, x in enumerate(lits)):
                        continue        # a partition literal outside the kept top bits
                    if fd:
                        lits = [x if i < fd - 1 else 0 for i, x in enumerate(lits)] if op == 'add' else lits
                    bv = _value_bits(sb, lits)
                    if fd:
                        bv = _sym_sum(bv, _value_bits(sb - fd, lits))
                        if bv is None:
                            continue
                    sm = _sym_sum(abits, bv) if op == 'add' else _sym_diff(abits, bv, l)
                    if sm is None:
                        continue
                    nz = [pos for pos, b in sm.items() if b != 0]
                    if not nz:
                        continue
                    top = max(nz)
                    if is_lit(sm[top]):
                        continue
                    frac = [sm.get(pos, 0) for pos in range(top - 1, min(sm) - 1, -1)]
                    B = encoding_string(es, top, frac)
                    for asg, want, cname in rounding_cases(B, nk, full):
                        if want is None:
                            continue
                        want = clamp_const(want, nk)
                        bbits = ([0] + known_b + subst(lits, asg))[:n]
                        yield ('a=2^%d*%s b@2^%d%s %s' % (s, Fname, sb, vname, cname), a_enc, bbits, want)


def check_add(ctx, prog, rule, label, path, pty, full, scales=None, swap=False, negative=False, seed=1, op='add'):
    """a + b with one operand constant and the other symbolic (see add_cells): the result vector must be the correctly rounded sum for
    every b of the cell.  swap: the symbolic operand comes first; negative: both operands negated (the result must be the negation)."""
    import collections
    I = Interp(prog, max_steps=200000)
    stats = collections.Counter()
    rng = random.Random(seed)
    P = pty.posit
    n = pty.bits

    pad = getattr(pty, 'pad', 0)
    gargs = getattr(pty, 'gargs', None) or {}

    def const_arg(u):
        u = (u & mask(n)) << pad
        w_ = n + pad
        sv = u - (1 << w_) if u >> (w_ - 1) else u
        return AAgg(pty.tykey, [AInt.const(w_, True, sv)])

    def mkc(a_enc, bits):
        def concrete(asg):
            u = 0
            for b in bits:
                u = (u << 1) | (asg.get(b[2], asg.get('*', 0)) if is_lit(b) else b)
            ua, ub = (((-a_enc) & mask(n)), ((-u) & mask(n))) if negative else (a_enc, u)
            va, vb = P.decode(ua), P.decode(ub)
            args = [const_arg(ub), const_arg(ua)] if swap else [const_arg(ua), const_arg(ub)]
            return args, '%#x + %#x (%s + %s)' % ((ub, ua, float(vb), float(va)) if swap else (ua, ub, float(va), float(vb))), P.encode((va + vb) if op == 'add' else ((vb - va) if swap else (va - vb))) << pad, lambda a: I.run(path, a, gargs)
        return concrete
    for cname, a_enc, bits, want in add_cells(pty, full, scales, op=op):
        fa_ = {}
        u = 0
        for b in bits:
            if is_lit(b):
                fa_[b[2]] = rng.getrandbits(1)
            u = (u << 1) | (fa_[b[2]] if is_lit(b) else b)
        assert P.encode((P.decode(a_enc) + P.decode(u)) if op == 'add' else (P.decode(a_enc) - P.decode(u))) == instantiate(want, fa_), ('oracle mismatch', label, cname)
        aa = (-a_enc) & mask(n) if negative else a_enc

        def mk(bits=bits, aa=aa):
            bv = posit_input(pty, bits, negative, pty.tykey, pad)
            return [bv, const_arg(aa)] if swap else [const_arg(aa), bv]

        def subs(bits=bits, want=want, aa=aa, a_enc=a_enc):
            for a2, sub in refine_cells(list(reversed(bits)), want):
                b2 = subst(bits, a2)

                def mk2(b2=b2, aa=aa):
                    bv = posit_input(pty, b2, negative, pty.tykey, pad)
                    return [bv, const_arg(aa)] if swap else [const_arg(aa), bv]
                yield sub, mk2, [0] + subst(want, a2) + [0] * pad, mkc(a_enc, b2)
        res_neg = negative ^ (op == 'sub' and swap)
        decide(ctx, I, rule, label, ('-' if negative else '+') + cname, path, mk, gargs, res_neg, [0] + want + [0] * pad, mkc(a_enc, bits), stats, subs)
    for k_, v in stats.items():
        ctx.count('opcells_%s' % k_, v)
    return stats


_TASKS = {}


def _task_worker(i):
    func, args, kwargs = _TASKS['tasks'][i]
    c = _Collector()
    st = func(c, _TASKS['prog'], *args, **kwargs)
    return dict(st), [(f.rule, f.fn, f.instance, f.msg, f.details, f.alt) for f in c.findings], c.samples, c.undecided


def run_parallel(ctx, prog, tasks, workers=None, prefix='opcells_'):
    """tasks: list of (func, args, kwargs) with func(ctx, prog, *args, **kwargs) -> Counter; run in forked workers (the program facts are
    inherited, nothing is pickled but the results) and merged into ctx.  Returns the summed Counter."""
    import collections
    import multiprocessing as mp
    import os
    workers = workers or min(16, os.cpu_count() or 4, len(tasks))
    _set_deadline(ctx)
    tot = collections.Counter()
    if workers <= 1 or len(tasks) <= 1:
        for func, args, kwargs in tasks:
            tot.update(func(ctx, prog, *args, **kwargs))
        return tot
    _TASKS.update(prog=prog, tasks=tasks)
    with mp.get_context('fork').Pool(workers) as pool:
        for st, fs, samples, und in pool.imap_unordered(_task_worker, range(len(tasks))):
            tot.update(st)
            for rule_, fn, inst, msg, det, alt in fs:
                f = ctx.finding(rule_, fn, inst, msg, det, alt=alt)
                if det and det.get('cells') and f.details is not det:
                    f.details.setdefault('cells', []).extend(det['cells'])
            for s_ in samples:
                ctx.sample(s_, limit=8)
            for k, v in und.items():
                ctx.undecided.setdefault(k, []).extend(v if isinstance(v, list) else [v])
    for k_, v in tot.items():
        ctx.count(prefix + k_, v)
    return tot


FMA_VARIANTS = {
    # function: list of (family, builder(c, b, pw) -> args, result negated?)   c: constant addend, b: symbolic operand (may be negated), pw: 2^t
    'mul_add': [('add', lambda c, b, nb, pw: [pw, b, c], False), ('sub', lambda c, b, nb, pw: [pw, nb, c], False), ('add', lambda c, b, nb, pw: [b, pw, c], False)],
    'mul_sub': [('add', lambda c, b, nb, pw, : [pw, b, ('neg', c)], False), ('sub', lambda c, b, nb, pw: [pw, b, c], True)],
    'sub_product': [('sub', lambda c, b, nb, pw: [c, pw, b], False), ('add', lambda c, b, nb, pw: [c, pw, nb], False)],
}


def check_fma(ctx, prog, rule, label, path, pty, fname, variant, full, scales=None, t=0, seed=1, fd=0):
    """fused family with one symbolic operand: x*y+z etc. where one factor is the constant 2^t, the other every posit b of a regime cell and
    the addend a constant c = 2^s * 1.0 / 2^s * 1.1..1 such that the exact result c +/- 2^t*b is a routing of b's bits."""
    import collections
    I = Interp(prog, max_steps=200000)
    stats = collections.Counter()
    rng = random.Random(seed)
    P = pty.posit
    n = pty.bits
    family, build, res_neg = FMA_VARIANTS[fname][variant]
    pwv = Fraction(2) ** t * (1 + (Fraction(1, 1 << fd) if fd else 0))
    pw_enc = P.encode(pwv)
    if P.decode(pw_enc) != pwv:
        return stats

    pad = getattr(pty, 'pad', 0)
    gargs = getattr(pty, 'gargs', None) or {}

    def const_arg(u):
        u = (u & mask(n)) << pad
        w_ = n + pad
        sv = u - (1 << w_) if u >> (w_ - 1) else u
        return AAgg(pty.tykey, [AInt.const(w_, True, sv)])

    def args_for(c_enc, bval_pos, bval_neg):
        raw = build(c_enc, bval_pos, bval_neg, pw_enc)
        out = []
        for x in raw:
            if isinstance(x, tuple) and x[0] == 'neg':
                out.append(const_arg(-x[1]))
            elif isinstance(x, int):
                out.append(const_arg(x))
            else:
                out.append(x)
        return out

    def real(fn, vals):
        x, y, z = vals
        return {'mul_add': x * y + z, 'mul_sub': x * y - z, 'sub_product': x - y * z}[fn]

    def mkc(c_enc, bits):
        def concrete(asg):
            u = 0
            for b in bits:
                u = (u << 1) | (asg.get(b[2], asg.get('*', 0)) if is_lit(b) else b)
            args = args_for(c_enc, const_arg(u), const_arg(-u))
            vals = [P.decode(result_int(a).uval() >> pad) for a in args]
            return args, '%s(%s)' % (fname, ', '.join('%#x' % result_int(a).uval() for a in args)), P.encode(real(fname, vals)) << pad, lambda a: I.run(path, a, gargs)
        return concrete
    for cname, c_enc, bits, want in add_cells(pty, full, scales, op=family, t=t, fd=fd):
        fa_ = {}
        u = 0
        for b in bits:
            if is_lit(b):
                fa_[b[2]] = rng.getrandbits(1)
            u = (u << 1) | (fa_[b[2]] if is_lit(b) else b)
        pv = P.decode(u) * pwv
        assert P.encode((P.decode(c_enc) + pv) if family == 'add' else (P.decode(c_enc) - pv)) == instantiate(want, fa_), ('oracle mismatch', label, cname)

        def mk(bits=bits, c_enc=c_enc):
            return args_for(c_enc, posit_input(pty, bits, False, pty.tykey, pad), posit_input(pty, bits, True, pty.tykey, pad))

        def subs(bits=bits, want=want, c_enc=c_enc):
            for a2, sub in refine_cells(list(reversed(bits)), want):
                b2 = subst(bits, a2)
                yield sub, (lambda b2=b2, c_enc=c_enc: args_for(c_enc, posit_input(pty, b2, False, pty.tykey, pad), posit_input(pty, b2, True, pty.tykey, pad))), [0] + subst(want, a2) + [0] * pad, mkc(c_enc, b2)
        decide(ctx, I, rule, label, 't=%d%s v%d %s' % (t, (' f=1+2^-%d' % fd) if fd else '', variant, cname), path, mk, gargs, res_neg, [0] + want + [0] * pad, mkc(c_enc, bits), stats, subs)
    return stats


def check_mul_pow2(ctx, prog, rule, label, path, pty, opn, order, full, ts, seed=1):
    """b * 2^t, 2^t * b and b / 2^t for every posit b (regime cells) and the listed t: the exact result 2^(scale(b) +/- t) * 1.f is b's
    significand at another scale, so the result must be its posit-rule rounding there (rounding cells of the result scale).
    order: 'bc' = symbolic operand first, 'cb' = constant first (mul only)."""
    import collections
    from rules_routing import regime_cells
    I = Interp(prog, max_steps=200000)
    stats = collections.Counter()
    rng = random.Random(seed)
    P = pty.posit
    n, es = pty.bits, pty.es
    nk = n - 1

    pad = getattr(pty, 'pad', 0)
    gargs = getattr(pty, 'gargs', None) or {}

    def const_arg(u):
        u = (u & mask(n)) << pad
        w_ = n + pad
        sv = u - (1 << w_) if u >> (w_ - 1) else u
        return AAgg(pty.tykey, [AInt.const(w_, True, sv)])
    for t in ts:
        pw = Fraction(2) ** t
        pw_enc = P.encode(pw)
        if P.decode(pw_enc) != pw:
            continue
        dt = t if opn == 'mul' else -t

        def mkc(bits, negative):
            def concrete(asg):
                u = 0
                for b in bits:
                    u = (u << 1) | (asg.get(b[2], asg.get('*', 0)) if is_lit(b) else b)
                if negative:
                    u = (-u) & mask(n)
                v = P.decode(u)
                args = [const_arg(u), const_arg(pw_enc)] if order == 'bc' else [const_arg(pw_enc), const_arg(u)]
                return args, '%#x %s 2^%d' % (u, '*' if opn == 'mul' else '/', t), P.encode(v * pw if opn == 'mul' else v / pw) << pad, lambda a: I.run(path, a, gargs)
            return concrete
        for negative in (False, True):
            for k, e, fl, known in regime_cells(n, es):
                scale = k * (1 << es) + e
                lits = [lit(fl - 1 - i) for i in range(fl)]
                B = encoding_string(es, scale + dt, lits)
                for asg, want, cname in rounding_cases(B, nk, full):
                    if want is None:
                        continue
                    want = clamp_const(want, nk)
                    bits = [0] + list(known) + subst(lits, asg)
                    cn = 't=%d %s k=%d e=%d %s' % (t, '-' if negative else '+', k, e, cname)
                    fa = {}
                    u = 0
                    for b in bits:
                        if is_lit(b):
                            fa[b[2]] = rng.getrandbits(1)
                        u = (u << 1) | (fa[b[2]] if is_lit(b) else b)
                    v = P.decode(u)
                    assert P.encode(v * pw if opn == 'mul' else v / pw) == instantiate(want, fa), ('oracle mismatch', label, cn)

                    def mk(bits=bits, negative=negative):
                        bv = posit_input(pty, bits, negative, pty.tykey, pad)
                        return [bv, const_arg(pw_enc)] if order == 'bc' else [const_arg(pw_enc), bv]

                    def subs(bits=bits, want=want, negative=negative):
                        for a2, sub in refine_cells(list(reversed(bits)), want):
                            b2 = subst(bits, a2)

                            def mk2(b2=b2, negative=negative):
                                bv = posit_input(pty, b2, negative, pty.tykey, pad)
                                return [bv, const_arg(pw_enc)] if order == 'bc' else [const_arg(pw_enc), bv]
                            yield sub, mk2, [0] + subst(want, a2) + [0] * pad, mkc(b2, negative)
                    decide(ctx, I, rule, label, cn, path, mk, gargs, negative, [0] + want + [0] * pad, mkc(bits, negative), stats, subs)
    return stats


# ------------------------------------------------------------------------------------------------ quire image of an accumulated product

def check_quire_image(ctx, prog, q, frac_bits, path, kind, ts, label, full=False, signs=(False, True), kfilter=None, carry=True, seed=1):
    """QIMAGE: q0 += (p, 2^t) (or (2^t, p), or the single-posit spelling with t = 0) for every posit p of a regime cell: the accumulator must
    afterwards hold exactly q0 + p * 2^t as a two's-complement fixed-point image, bit for bit (no rounding is involved).  q0 is the cleared
    quire and, with carry=True, also the constant 2^H - 2^L whose lowest one meets the leading bit of the product, so that the carry runs
    through the limbs above.  Negative products are partitioned by the lowest set fraction bit of p (then the two's complement is a vector of
    literals).  kind: 'one' | 'pair' | 'pair_r' | 'inh2'; flip (subtracting spellings) is expressed by the caller through `sub`."""
    import collections
    from quire_common import self_ref, final_state
    from rules_routing import regime_cells
    pty = q.pty
    P = pty.posit
    n, es = pty.bits, pty.es
    T = sum(b for b, _ in q.fields)
    I = Interp(prog, max_steps=400000)
    stats = collections.Counter()
    maxs = (n - 2) << es

    def const_arg(u):
        u &= mask(n)
        sv = u - (1 << n) if u >> (n - 1) else u
        return AAgg(pty.tykey, [AInt.const(n, True, sv)])

    def const_state(u):
        fields = []
        sh = T
        for (fb_, signed) in q.fields:
            sh -= fb_
            c = (u >> sh) & mask(fb_)
            if signed and c >> (fb_ - 1):
                c -= 1 << fb_
            fields.append(AInt.const(fb_, signed, c))
        return AAgg(q.tykey, fields)

    sub = label.endswith('[sub]')
    for t in ts:
        pw = Fraction(2) ** t
        pw_enc = P.encode(pw)
        if P.decode(pw_enc) != pw or (kind == 'one' and t != 0):
            continue
        for negative in signs:
            for k, e, fl, known in regime_cells(n, es):
                if kfilter is not None and not kfilter(k):
                    continue
                scale = k * (1 << es) + e + t
                top = frac_bits + scale                     # position of the product's leading one in the image
                if top >= T - 2 or top - fl < 0:
                    continue                                # outside the quire's exact range: nothing claimed
                neg_img = negative ^ sub
                variants = []
                lits0 = [lit(fl - 1 - i) for i in range(fl)]
                if not neg_img:
                    variants.append(('', lits0, None))
                else:
                    variants.append((' frac=0', [0] * fl, top))
                    js = list(range(fl)) if (full or fl <= 4) else sorted({0, 1, fl // 2, fl - 1})
                    for j in js:
                        variants.append((' low@%d' % j, [lit(fl - 1 - i) if (fl - 1 - i) > j else (1 if (fl - 1 - i) == j else 0) for i in range(fl)], top - fl + j))
                for vname, lits, l in variants:
                    img = {top: 1}
                    for i, b in enumerate(lits):
                        img[top - 1 - i] = b
                    q0s = [(0, 'q0=0')]
                    if carry and top + 70 < T - 2:
                        H = min(T - 3, top + 130)
                        q0s.append(((1 << H) - (1 << top), 'q0=2^%d-2^%d' % (H, top)))
                    for q0, qname in q0s:
                        if q0 and neg_img:
                            continue                        # the carry variant is checked for positive products only
                        if not neg_img:
                            abits = {pos: (q0 >> pos) & 1 for pos in range(T)}
                            sm = _sym_sum(abits, img)
                        else:
                            # two's complement image of -(product): bits above l complemented, bit l one, below zero, sign-extended
                            sm = {}
                            for pos in range(T):
                                y = img.get(pos, 0)
                                if pos < l:
                                    sm[pos] = 0
                                elif pos == l:
                                    sm[pos] = 1
                                else:
                                    sm[pos] = (y[0], y[1], y[2], not y[3]) if is_lit(y) else 1 - y
                        if sm is None:
                            continue
                        want = [sm.get(pos, 0) for pos in range(T - 1, -1, -1)]
                        bits = [0] + list(known) + list(lits)
                        cname = '%s t=%d %s k=%d e=%d%s %s' % (label, t, '-' if negative else '+', k, e, vname, qname)
                        stats['cells'] += 1
                        st0 = const_state(q0)
                        ref = self_ref(st0, True)
                        pv = posit_input(pty, bits, negative)
                        ov = const_arg(pw_enc)
                        if kind == 'one':
                            args = [ref, pv]
                        elif kind == 'pair':
                            args = [ref, AAgg('(tuple)', [pv, ov])]
                        elif kind == 'pair_r':
                            args = [ref, AAgg('(tuple)', [ov, pv])]
                        else:
                            args = [ref, pv, ov]
                        try:
                            o = I.run(path, args)
                        except Exception as ex:
                            stats['unsupported'] += 1
                            continue
                        if o.kind != 'return':
                            stats['undecided'] += 1
                            continue
                        fin = final_state(I, o, args)
                        got = []
                        for f in fin.fields:
                            got += sym_msb_first(f)
                        if any(b is None for b in got):
                            stats['undecided'] += 1
                            continue
                        if got == want:
                            stats['proved'] += 1
                            continue
                        # confirm on concrete members of the cell before reporting
                        confirmed = None
                        for fill in (0, 1):
                            u = 0
                            for b in bits:
                                u = (u << 1) | (fill if is_lit(b) else b)
                            uu = (-u) & mask(n) if negative else u
                            val = P.decode(uu) * pw
                            if sub:
                                val = -val
                            exp_img = (q0 + int(val * (1 << frac_bits))) & mask(T)
                            ref2 = self_ref(const_state(q0), True)
                            a2 = {'one': [ref2, const_arg(uu)], 'pair': [ref2, AAgg('(tuple)', [const_arg(uu), ov])],
                                  'pair_r': [ref2, AAgg('(tuple)', [ov, const_arg(uu)])], 'inh2': [ref2, const_arg(uu), ov]}[kind]
                            o2 = I.run(path, a2)
                            if o2.kind != 'return':
                                continue
                            f2 = final_state(I, o2, a2)
                            img2 = 0
                            okc = True
                            for f, (fb_, _) in zip(f2.fields, q.fields):
                                if not f.is_const():
                                    okc = False
                                    break
                                img2 = (img2 << fb_) | f.uval()
                            if okc and img2 != exp_img:
                                confirmed = (uu, img2, exp_img)
                                break
                        if confirmed:
                            f = ctx.finding('QIMAGE', label, 'image', '%s: after accumulating p = %#x (times 2^%d) onto %s the accumulator holds %#x, the exact fixed-point image is %#x (cell %s)'
                                            % (label, confirmed[0], t, qname, confirmed[1], confirmed[2], cname), {'function': path, 'cells': []})
                            f.details.setdefault('cells', []).append(cname)
                            stats['refuted'] += 1
                        else:
                            stats['undecided'] += 1
    return stats
