#!/bin/bash
# usage: extract.sh <out.json> <tag> [cargo feature args...]
# Extracts MIR facts of /repo's current working tree with the mirdump driver (fresh target dir).
set -euo pipefail
OUT="$1"; TAG="$2"; shift 2
HERE="$(cd "$(dirname "$0")/.." && pwd)"
DRV="$HERE/driver/target/release/mirdump"
[ -x "$DRV" ] || DRV="/verif/driver/target/release/mirdump"   # background snapshots of /verif have no build output
REPO="${VERIF_REPO:-/repo}"
[ -x "$DRV" ] || { echo "mirdump driver not built (run setup_cmd)"; exit 2; }
TD="$(mktemp -d /tmp/mirdump.XXXXXX)"
trap 'rm -rf "$TD"' EXIT
rm -f "$OUT"
SYSROOT="$(rustc +nightly --print sysroot)"
LD_LIBRARY_PATH="$SYSROOT/lib" \
CARGO_NET_OFFLINE=true \
RUSTFLAGS="${VERIF_RUSTFLAGS_OVERRIDE:--Zmir-opt-level=0 -Coverflow-checks=on -Awarnings} ${VERIF_CFG:-}" \
RUSTC_WORKSPACE_WRAPPER="$DRV" \
MIRDUMP_OUT="$OUT" MIRDUMP_TAG="$TAG" \
CARGO_TARGET_DIR="$TD" \
cargo +nightly check --offline --lib --manifest-path "$REPO/Cargo.toml" "$@" >"$TD/log" 2>&1 || { cat "$TD/log"; exit 3; }
[ -s "$OUT" ] || { echo "fact file not written"; cat "$TD/log"; exit 4; }
