"""Specification-critical singleton cells ("probes").

A probe is a single input the *specification* singles out: format constants, neighbours of rounding boundaries, exact ties,
saturation boundaries, half-integers.  On a singleton cell the abstract interpreter degenerates to conditional constant propagation
over the MIR, so the cell is always decided; the verdict covers that one input only.  Probes are chosen from the format definition
(never at random) so that a wrong tie decision, sticky collection or saturation test on the general path is refuted at a point the
specification says matters.  They complement, and never replace, the interval cells.
"""
from fractions import Fraction
import spec as S


def posit_probes(pty, level=1):
    """encodings (unsigned) of specification-critical values of an n-bit posit"""
    p = pty.posit
    n = pty.bits
    m = p.mask
    out = {0, p.nar, 1, 2, 3, p.maxpos_bits, p.maxpos_bits - 1, p.maxpos_bits - 2, pty.one, pty.one + 1, pty.one - 1, pty.one + 2, pty.one + 3}
    # powers of two and their neighbours, half-integers, 3/2-type ties
    vals = [Fraction(1, 2), Fraction(2), Fraction(3, 2), Fraction(5, 2), Fraction(7, 2), Fraction(3), Fraction(4), Fraction(9, 2),
            Fraction(1, 4), Fraction(3, 4), Fraction(1, 3), Fraction(10), Fraction(1, 10), Fraction(255, 2), Fraction(8), Fraction(15, 2), Fraction(17, 2)]
    if level > 1:
        vals += [Fraction(2) ** k for k in (-8, -5, 5, 8, 12, 16, 20)] + [Fraction(2) ** k + Fraction(1, 2) for k in (3, 5, 8, 12, 16, 20)]
    for v in vals:
        e = p.encode(v)
        out |= {e, (e + 1) & m, (e - 1) & m}
    # regime boundaries: patterns 01..1 0.. and fraction-all-ones before a regime change
    for k in range(2, n - 1):
        out.add((1 << k) & m)           # 0..010..0
        out.add(((1 << k) - 1) & m)     # 0..01..1
    pos = {x for x in out if 0 < x < p.nar}
    out |= {(-x) & m for x in pos}
    return sorted(out)


def small_posit_probes(pty):
    """a smaller set for products of cells (binary / ternary operations)"""
    p = pty.posit
    m = p.mask
    n = pty.bits
    base = {0, p.nar, 1, 2, p.maxpos_bits, p.maxpos_bits - 1, pty.one, pty.one + 1, pty.one - 1, pty.one + 2, pty.one + 3,
            1 << (n - 4), 1 << (n - 5), (1 << (n - 2)) | (1 << (n - 4))}
    for v in (Fraction(1, 2), Fraction(2), Fraction(3, 2), Fraction(3), Fraction(5, 2), Fraction(1, 3), Fraction(7), Fraction(10)):
        base.add(p.encode(v))
    pos = {x for x in base if 0 < x < p.nar}
    return sorted(base | {(-x) & m for x in pos})


def float_tie_probes(pty, fmt, count=24):
    """float bit patterns at, just below and just above rounding midpoints of the posit format (exactly representable midpoints only)"""
    p = pty.posit
    pm = S.Posit(p.n + 1, p.es)
    us = sorted({pty.one, pty.one + 1, pty.one - 1, pty.one - 2, p.encode(Fraction(2)), p.encode(Fraction(1, 2)), p.encode(Fraction(3)),
                 p.encode(Fraction(100)), p.encode(Fraction(1, 100)), p.maxpos_bits - 1, p.maxpos_bits - 2, 1, 2, 3, p.encode(Fraction(5, 2)),
                 p.encode(Fraction(1000)), p.encode(Fraction(1, 1000)), p.encode(Fraction(7))})
    out = set()
    for u in us:
        if not (0 < u < p.maxpos_bits):
            continue
        mid = pm.decode(2 * u + 1)
        b = fmt.encode(mid)
        if fmt.decode(b) != mid:
            continue   # midpoint not representable in this float format
        for d in (-1, 0, 1):
            out.add(b + d)
            out.add((b + d) | (1 << (fmt.bits - 1)))
        if len(out) >= 6 * count:
            break
    return sorted(out)


def int_probes(pty, bits, signed):
    """integers at and around the points where integer -> posit rounding changes"""
    p = pty.posit
    out = set()
    hi = (1 << (bits - 1)) - 1 if signed else (1 << bits) - 1
    for k in range(0, bits):
        for d in (-2, -1, 0, 1, 2):
            v = (1 << k) + d
            if 0 <= v <= hi:
                out.add(v)
    # midpoints between consecutive representable integers
    pm = S.Posit(p.n + 1, p.es)
    span = p.maxpos_bits - pty.one
    for i in range(0, 257):
        u = pty.one + span * i // 257
        a, b = p.decode(u), p.decode(u + 1)
        if a >= 1 and a.denominator == 1 and b.denominator == 1 and b - a >= 2:
            mid = pm.decode(2 * u + 1)
            if mid.denominator == 1:
                for d in (-1, 0, 1):
                    v = int(mid) + d
                    if 0 <= v <= hi:
                        out.add(v)
    if signed:
        out |= {(-v) for v in list(out)} | {-(1 << (bits - 1))}
    return sorted(out)


def ternary_probes(pty, level=1):
    """(a, b, c) triples for the fused family: exact-tie products with a tiny addend of either sign, exact cancellation, results next to
    maxpos / minpos, plain small values"""
    p = pty.posit
    m = p.mask
    one = pty.one
    V = [one, one + 1, one + 3, p.encode(Fraction(3, 2)), p.encode(Fraction(2)), p.encode(Fraction(3)), p.encode(Fraction(4)),
         p.encode(Fraction(1, 2)), p.encode(Fraction(1, 3)), p.maxpos_bits, p.maxpos_bits - 1, 1, 2, one - 1]
    if level > 1:
        V += [one + 2, p.encode(Fraction(5, 2)), p.encode(Fraction(10)), p.maxpos_bits - 2, 3, p.encode(Fraction(7))]
    V = sorted(set(V))
    Vs = V + [(-v) & m for v in (one, p.encode(Fraction(4)), p.encode(Fraction(3, 2)), p.maxpos_bits - 1, 1)]
    out = set()
    for a in Vs:
        for b in V:
            prod = p.decode(a) * p.decode(b)
            cs = {1, m, one, (-one) & m, p.maxpos_bits - 1, (-(p.maxpos_bits - 1)) & m, p.encode(Fraction(2)), (-p.encode(prod)) & m, p.encode(prod)}
            for c in cs:
                out.add((a, b, c))
    return sorted(out)


def singles(vals):
    return [(v, v) for v in vals]


# ------------------------------------------------------------------------------------------------ rounding matrix for the binary operations

def _frac_bits_at(p, scale):
    """number of fraction bits of format p at binary scale `scale` (0 when the regime / exponent fill the word)"""
    k = scale >> p.es
    reg = (k + 2) if k >= 0 else (-k + 1)
    return max(0, p.n - 1 - reg - p.es)


def _enc(p, scale, frac_num, frac_len):
    """encoding of 2^scale * (1 + frac_num / 2^frac_len) if exactly representable, else None"""
    v = Fraction(2) ** scale * (1 + Fraction(frac_num, 1 << frac_len) if frac_len else Fraction(2) ** scale)
    e = p.encode(v)
    return e if p.decode(e) == v else None


def op_probes(pty, op, level=1):
    """operand pairs whose exact result realises, at every result scale of the format, each rounding situation of the posit rule:
    exactly representable / below the midpoint / tie with even and odd last bit / above the midpoint / carry out of an all-ones
    fraction.  Built from the format definition alone (directed construction, no search)."""
    p = pty.posit
    n, es = p.n, p.es
    m = p.mask
    maxs = (n - 2) << es
    out = []
    scales = list(range(-maxs, maxs))
    if level <= 1:
        scales = [s for s in scales if (s & ((1 << es) - 1)) in (0, (1 << es) - 1)] if es else scales
    fb0 = _frac_bits_at(p, 0)

    def add(a, b):
        if a is not None and b is not None:
            out.append((a & m, b & m))

    for s in scales:
        fbs = _frac_bits_at(p, s)
        if op in ('mul', 'div'):
            # a = (1 + F) at scale 0 with fb0 fraction bits, b = 2^s (mul) or 2^-s (div): the result is 2^s (1 + F), rounded to fbs bits
            drop = fb0 - fbs
            if drop < 1:
                continue
            pw = _enc(p, s if op == 'mul' else -s, 0, 0)
            if pw is None:
                continue
            keep_alt = int('10' * fbs, 2) >> fbs if fbs else 0      # alternating kept bits
            for x in (0, 1):
                kept = ((keep_alt >> 1) << 1 | x) if fbs else 0
                if fbs == 0 and x:
                    continue
                for r, st in ((0, 0), (0, 1), (1, 0), (1, 1)):
                    if drop == 1 and st:
                        continue
                    low = (r << (drop - 1)) | (st if drop > 1 else 0)
                    a = _enc(p, 0, (kept << drop) | low, fb0)
                    add(a, pw)
                    if level > 1 or (x, r, st) in ((1, 1, 0), (0, 1, 0)):
                        if op == 'mul':
                            add(pw, a)
                        add((-a) & m if a is not None else None, pw)
            # all-ones kept bits with the round bit set: the increment carries into exponent / regime
            if fbs:
                kept = (1 << fbs) - 1
                low = 1 << (drop - 1)
                add(_enc(p, 0, (kept << drop) | low, fb0), pw)
        else:
            # a = 2^s (1 + F) with fbs fraction bits; b = half an ulp of a (tie), just above it, just below it
            hs = s - fbs - 1
            tie = _enc(p, hs, 0, 0)
            if tie is None:
                continue
            fbh = _frac_bits_at(p, hs)
            above = _enc(p, hs, 1, fbh) if fbh else None
            fbl = _frac_bits_at(p, hs - 1)
            below = _enc(p, hs - 1, (1 << fbl) - 1, fbl) if fbl else _enc(p, hs - 1, 0, 0)
            pats = [0, 1] if fbs else [0]
            if fbs > 1:
                pats += [(1 << fbs) - 1, (1 << fbs) - 2, int('10' * fbs, 2) >> fbs]
            for F in pats:
                a = _enc(p, s, F, fbs)
                for b in (tie, above, below):
                    if op == 'add':
                        add(a, b)
                        if level > 1 or b == tie:
                            add(b, a)
                            add((-a) & m if a is not None else None, (-b) & m if b is not None else None)
                    else:
                        add(a, b)
                        if level > 1 or b == tie:
                            add((-a) & m if a is not None else None, b)
    seen = set()
    uniq = []
    for pr in out:
        if pr not in seen:
            seen.add(pr)
            uniq.append(pr)
    return uniq


def fma_probes(pty, level=1):
    """(a, b, c) with a*b + c realising, at the result scales of the format, the rounding situations that only a fused operation meets:
    the addend c carries the kept bits, the exact product a*b = 2^t (1 + 2^-d) supplies the round bit and one sticky bit d places
    below it (d up to the full significand length: the sticky bit lies far below the target precision), with and without a carry of
    the sum into the next binade, exact ties, values just below the midpoint, and the negated family.  Directed construction."""
    p = pty.posit
    n, es = p.n, p.es
    m = p.mask
    maxs = (n - 2) << es
    fb0 = _frac_bits_at(p, 0)
    out = []
    scales = list(range(-maxs, maxs))       # unrepresentable members of a family are dropped by _enc
    if level <= 1 and n > 16:
        scales = [s for s in scales if (s >> es) % 2 == 0 and (s & ((1 << es) - 1)) in (0, (1 << es) - 1)]
    elif level <= 1 and es:
        scales = [s for s in scales if (s & ((1 << es) - 1)) in (0, (1 << es) - 1)]
    depths = sorted({1, 2, max(1, fb0 // 2), fb0 - 1, fb0}) if fb0 > 1 else [1]
    depths = [d for d in depths if 1 <= d <= fb0]

    def one_plus(d):
        return _enc(p, 0, 1 << (fb0 - d), fb0)           # 1 + 2^-d

    def add(a, b, c):
        if a is not None and b is not None and c is not None:
            out.append((a & m, b & m, c & m))
            if level > 1:
                out.append(((-a) & m, b & m, (-c) & m))

    for s in scales:
        fb = _frac_bits_at(p, s)
        Fs = [0] + ([1] if fb else []) + ([(1 << fb) - 1, int('01' * fb, 2) & ((1 << fb) - 1)] if fb > 1 else [])
        for F in Fs:
            c = _enc(p, s, F, fb)
            t = s - fb - 1                                  # position of the round bit
            bt = _enc(p, t, 0, 0)
            if c is None or bt is None:
                continue
            add(p.encode(Fraction(1)), bt, c)               # exact tie
            for d in depths:
                add(one_plus(d), bt, c)                     # tie + sticky bit d places below
            bl = _enc(p, t - 1, 0, 0)
            if bl is not None:
                for d in depths[:2] + depths[-1:]:
                    add(_enc(p, 0, ((1 << d) - 1) << (fb0 - d), fb0), bl, c)   # just below the midpoint: 2^(t-1) * 1.11..1
            # carry into the next binade: c = 2^(s-1) (1 + 2F) + 2^(s-fb-1), product 2^(s-1) (1 + 2^-d), F < 1/2
            if fb and F < (1 << (fb - 1)) and _frac_bits_at(p, s - 1) >= fb:
                cc = _enc(p, s - 1, (F << 1) | 1, fb)
                bc = _enc(p, s - 1, 0, 0)
                if cc is not None and bc is not None:
                    for d in depths:
                        if d > fb:
                            add(one_plus(d), bc, cc)
    # two-bit products 2^m + 1 = A * B with both factors dense (e.g. 2^18 + 1 = 65 * 4033): the product's top bit is the round bit of the
    # addend and its only other bit lies m places down - deeper than a single posit can hold and, for large m, shifted out of the working
    # register during alignment; added and subtracted (the subtraction needs the borrow correction for the lost bits)
    W_ = fb0 + 1
    twobit = []
    for mm in range(fb0 + 1, 2 * fb0 + 1):
        Nn = (1 << mm) + 1
        # every factorisation A * B with both factors below 2^W: the algebraic ones (2^a + 1 divides 2^mm + 1 whenever mm / a is odd) and a
        # bounded trial division (the dense cofactors matter: they fill the multiplier)
        cands = [(1 << a_) + 1 for a_ in range(1, mm) if mm % a_ == 0 and (mm // a_) % 2 == 1 and (mm // a_) >= 3]
        cands += list(range(3, min(1 << W_, 1 << 14), 2))
        got = 0
        seen_ = set()
        for A_ in cands:
            if Nn % A_ == 0:
                B_ = Nn // A_
                if 1 < A_ < (1 << W_) and 1 < B_ < (1 << W_) and (min(A_, B_), max(A_, B_)) not in seen_:
                    seen_.add((min(A_, B_), max(A_, B_)))
                    twobit.append((mm, A_, B_))
                    got += 1
                    if got >= 2:
                        break
    tb_scales = scales if (level > 1 or n <= 16) else scales[::3]
    for s in tb_scales:
        fb = _frac_bits_at(p, s)
        rpos = s - fb - 1
        for mm, A_, B_ in twobit:
            la, lb = A_.bit_length(), B_.bit_length()
            a_ = _enc(p, 0, (A_ - (1 << (la - 1))) << (fb0 - (la - 1)), fb0) if la - 1 <= fb0 else None
            eb = rpos - mm + la - 1
            sb_ = eb + lb - 1
            fbb = _frac_bits_at(p, sb_)
            b_ = _enc(p, sb_, (B_ - (1 << (lb - 1))) << (fbb - (lb - 1)), fbb) if 0 <= lb - 1 <= fbb else None
            if a_ is None or b_ is None:
                continue
            for F in ([0, 1] + ([(1 << fb) - 1] if fb > 1 else [])) if fb else [0]:
                c_ = _enc(p, s, F, fb)
                add(a_, b_, c_)                                   # c + (half ulp + far bit)
                add((-a_) & m if a_ is not None else None, b_, c_)     # c - (half ulp + far bit): just below the lower midpoint
    # squares (1 + 2^-x)^2 = 1 + 2^(1-x) + 2^-2x: a product with exactly three set bits, the lowest one 2x places down (deeper than any
    # posit can hold).  Placed so that the top bit completes an all-ones addend to the next power of two (carry-out), the middle bit is the
    # round bit and the lowest bit is the only sticky bit; and the same without the carry.
    sq_scales = scales if (level > 1 or n <= 16) else scales[::2]
    for s in sq_scales:
        fb = _frac_bits_at(p, s)
        rpos = s - fb - 1
        for x in range(2, fb0 + 1):
            ax = _enc(p, 0, 1 << (fb0 - x), fb0)
            u = rpos + (x - 1)
            if u < s:
                bx = _enc(p, u, 1 << (_frac_bits_at(p, u) - x), _frac_bits_at(p, u)) if _frac_bits_at(p, u) >= x else None
                ones = s - u                                 # c = 2^s - 2^u = 2^(s-1) * 1.1..1 (ones-1 fraction ones)
                fbc = _frac_bits_at(p, s - 1)
                cc = _enc(p, s - 1, ((1 << (ones - 1)) - 1) << (fbc - (ones - 1)), fbc) if 1 <= ones - 1 <= fbc else (_enc(p, s - 1, 0, 0) if ones == 1 else None)
                add(ax, bx, cc)
            u2 = rpos                                        # no carry: the top bit of the square is the round bit
            bx2 = _enc(p, u2, 1 << (_frac_bits_at(p, u2) - x), _frac_bits_at(p, u2)) if _frac_bits_at(p, u2) >= x else None
            add(ax, bx2, _enc(p, s, 0, 0))
            if fb:
                add(ax, bx2, _enc(p, s, 1, fb))
    seen = set()
    uniq = []
    for tr in out:
        if tr not in seen:
            seen.add(tr)
            uniq.append(tr)
    return uniq


def fma_sparse_probes(pty, per_m=6, max_tries=4096):
    """(a, b, c) for the fused operations whose exact product has a *lone lowest bit*: A*B = X * 2^(m+1) + 2^m + 1 for full-length
    significands A, B (found by a modular inverse, no search over results): bit m becomes the round bit, bit 0 the only sticky bit
    (m - 1 zeros in between, deeper than the target precision), and the addend c = 2^s - X * 2^(m+1-...) is chosen so that c + X...
    carries into the next binade.  The exact value is 2^s + half an ulp + one far-away bit: it must round up; a kernel that loses the
    lowest product bit anywhere (alignment shift, renormalisation after the carry) treats it as a tie and rounds to even."""
    p = pty.posit
    n, es = p.n, p.es
    m_ = p.mask
    fb0 = _frac_bits_at(p, 0)
    W = fb0 + 1                                  # significand width incl. hidden bit
    lo_sig, hi_sig = 1 << fb0, (1 << W) - 1
    maxs = (n - 2) << es
    full_scales = [s for s in range(-maxs, maxs) if _frac_bits_at(p, s) == fb0]
    out = []
    for m in range(3, 2 * fb0 + 1):
        mod = 1 << (m + 1)
        found = 0
        tries = 0
        A = lo_sig + 1
        step = max(2, ((hi_sig - lo_sig) // max_tries) | 1) * 2
        while A <= hi_sig and found < per_m and tries < max_tries:
            tries += 1
            inv = pow(A, -1, mod)
            B0 = (inv * ((1 << m) + 1)) % mod
            # B = B0 + j * mod inside the significand range
            j = max(0, (lo_sig - B0 + mod - 1) // mod)
            B = B0 + j * mod
            if lo_sig <= B <= hi_sig:
                P = A * B
                assert P & (mod - 1) == (1 << m) + 1
                L = P.bit_length()
                X = P >> (m + 1)
                xl = X.bit_length()
                found_s = 0
                # choose the result scale s: needs fb(s) fraction bits with the round bit right below them, X fitting in the kept bits
                for s in range(-maxs + 2, maxs):
                    fb = _frac_bits_at(p, s)
                    if fb < 1 or xl > fb:
                        continue
                    rpos = s - fb - 1                       # round-bit position = bit m of the product
                    u = rpos + (L - 1 - m)                  # scale of the product's leading bit
                    # c = 2^s - X * 2^(rpos + 1): the kept part of the product completes c to the next power of two
                    cval = Fraction(2) ** s - X * Fraction(2) ** (rpos + 1)
                    if cval <= 0:
                        continue
                    c = p.encode(cval)
                    if p.decode(c) != cval:
                        continue
                    # split the product scale between the factors (both must keep their full significand)
                    sa_sb = u - (1 if L == 2 * W else 0)    # scale(a) + scale(b)
                    done = False
                    for sa in full_scales:
                        sb = sa_sb - sa
                        if sb in full_scales:
                            a = _enc(p, sa, A - lo_sig, fb0)
                            b = _enc(p, sb, B - lo_sig, fb0)
                            if a is not None and b is not None:
                                out.append((a & m_, b & m_, c & m_))
                                done = True
                                break
                    if done:
                        found += 1
                        if found_s >= 2:
                            break
                        found_s += 1
            A += step
    seen = set()
    uniq = []
    for tr in out:
        if tr not in seen:
            seen.add(tr)
            uniq.append(tr)
    return uniq


def mul_sparse_probes(pty, per_case=6):
    """operand pairs with *dense* significands whose exact product sits in an extreme rounding situation: A*B = X*2^(m+1) + R with the
    round bit at position m and R in {2^m + 1 (a tie plus one far bit), 2^m - 1 (all ones just below the midpoint), 1 (a lone sticky bit),
    2^(m+1) - 1 (all ones)}.  B is obtained from A by a modular inverse (both odd, full length), no search."""
    p = pty.posit
    n, es = p.n, p.es
    msk = p.mask
    fb0 = _frac_bits_at(p, 0)
    W = fb0 + 1
    lo_sig, hi_sig = 1 << fb0, (1 << W) - 1
    maxs = (n - 2) << es
    full_scales = [s for s in range(-maxs, maxs) if _frac_bits_at(p, s) == fb0]
    out = []
    for m in (W - 2, W - 1, W):
        mod = 1 << (m + 1)
        for R in ((1 << m) + 1, (1 << m) - 1, 1, mod - 1, (1 << m) + 3, (1 << (m - 1)) + 1):
            found = 0
            A = lo_sig + 1 + 2 * (R % 7)
            step = (((hi_sig - lo_sig) // (per_case * 3)) | 1) + 1
            while A <= hi_sig and found < per_case:
                inv = pow(A, -1, mod)
                B0 = (inv * R) % mod
                j = max(0, (lo_sig - B0 + mod - 1) // mod)
                B = B0 + j * mod
                if lo_sig <= B <= hi_sig and (A * B) % mod == R:
                    for (sa, sb) in ((0, 0), (full_scales[0], full_scales[-1]), (full_scales[-1], full_scales[-1])):
                        if sa in full_scales and sb in full_scales:
                            a = _enc(p, sa, A - lo_sig, fb0)
                            b = _enc(p, sb, B - lo_sig, fb0)
                            if a is not None and b is not None:
                                out.append((a & msk, b & msk))
                                out.append(((-a) & msk, b & msk))
                    found += 1
                A += step
    seen = set()
    uniq = []
    for pr in out:
        if pr not in seen:
            seen.add(pr)
            uniq.append(pr)
    return uniq


# ------------------------------------------------------------------------------------------------ memoisation (generation uses exact rationals)
_CACHE = {}


def _memo(fn):
    def g(pty, *a, **k):
        key = (fn.__name__, pty.posit.n, pty.posit.es, a, tuple(sorted(k.items())))
        if key not in _CACHE:
            _CACHE[key] = fn(pty, *a, **k)
        return list(_CACHE[key])
    g.__name__ = fn.__name__
    g.__doc__ = fn.__doc__
    return g


op_probes = _memo(op_probes)
fma_probes = _memo(fma_probes)
fma_sparse_probes = _memo(fma_sparse_probes)
mul_sparse_probes = _memo(mul_sparse_probes)
posit_probes = _memo(posit_probes)
small_posit_probes = _memo(small_posit_probes)
