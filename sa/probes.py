"""Specification-critical singleton cells ("probes").

A probe is a single input the *specification* singles out: format constants, neighbours of rounding boundaries, exact ties,
saturation boundaries, half-integers.  On a singleton cell the abstract interpreter degenerates to conditional constant propagation
over the MIR, so the cell is always decided; the verdict covers that one input only.  Probes are chosen from the format definition
(never at random) so that a wrong tie decision, sticky collection or saturation test on the general path is refuted at a point the
specification says matters.  They complement, and never replace, the interval cells.
"""
from fractions import Fraction
import spec as S


def posit_probes(pty, level=1):
    """encodings (unsigned) of specification-critical values of an n-bit posit"""
    p = pty.posit
    n = pty.bits
    m = p.mask
    out = {0, p.nar, 1, 2, 3, p.maxpos_bits, p.maxpos_bits - 1, p.maxpos_bits - 2, pty.one, pty.one + 1, pty.one - 1, pty.one + 2, pty.one + 3}
    # powers of two and their neighbours, half-integers, 3/2-type ties
    vals = [Fraction(1, 2), Fraction(2), Fraction(3, 2), Fraction(5, 2), Fraction(7, 2), Fraction(3), Fraction(4), Fraction(9, 2),
            Fraction(1, 4), Fraction(3, 4), Fraction(1, 3), Fraction(10), Fraction(1, 10), Fraction(255, 2), Fraction(8), Fraction(15, 2), Fraction(17, 2)]
    if level > 1:
        vals += [Fraction(2) ** k for k in (-8, -5, 5, 8, 12, 16, 20)] + [Fraction(2) ** k + Fraction(1, 2) for k in (3, 5, 8, 12, 16, 20)]
    for v in vals:
        e = p.encode(v)
        out |= {e, (e + 1) & m, (e - 1) & m}
    # regime boundaries: patterns 01..1 0.. and fraction-all-ones before a regime change
    for k in range(2, n - 1):
        out.add((1 << k) & m)           # 0..010..0
        out.add(((1 << k) - 1) & m)     # 0..01..1
    pos = {x for x in out if 0 < x < p.nar}
    out |= {(-x) & m for x in pos}
    return sorted(out)


def small_posit_probes(pty):
    """a smaller set for products of cells (binary / ternary operations)"""
    p = pty.posit
    m = p.mask
    n = pty.bits
    base = {0, p.nar, 1, 2, p.maxpos_bits, p.maxpos_bits - 1, pty.one, pty.one + 1, pty.one - 1, pty.one + 2, pty.one + 3,
            1 << (n - 4), 1 << (n - 5), (1 << (n - 2)) | (1 << (n - 4))}
    for v in (Fraction(1, 2), Fraction(2), Fraction(3, 2), Fraction(3), Fraction(5, 2), Fraction(1, 3), Fraction(7), Fraction(10)):
        base.add(p.encode(v))
    pos = {x for x in base if 0 < x < p.nar}
    return sorted(base | {(-x) & m for x in pos})


def float_tie_probes(pty, fmt, count=24):
    """float bit patterns at, just below and just above rounding midpoints of the posit format (exactly representable midpoints only)"""
    p = pty.posit
    pm = S.Posit(p.n + 1, p.es)
    us = sorted({pty.one, pty.one + 1, pty.one - 1, pty.one - 2, p.encode(Fraction(2)), p.encode(Fraction(1, 2)), p.encode(Fraction(3)),
                 p.encode(Fraction(100)), p.encode(Fraction(1, 100)), p.maxpos_bits - 1, p.maxpos_bits - 2, 1, 2, 3, p.encode(Fraction(5, 2)),
                 p.encode(Fraction(1000)), p.encode(Fraction(1, 1000)), p.encode(Fraction(7))})
    out = set()
    for u in us:
        if not (0 < u < p.maxpos_bits):
            continue
        mid = pm.decode(2 * u + 1)
        b = fmt.encode(mid)
        if fmt.decode(b) != mid:
            continue   # midpoint not representable in this float format
        for d in (-1, 0, 1):
            out.add(b + d)
            out.add((b + d) | (1 << (fmt.bits - 1)))
        if len(out) >= 6 * count:
            break
    return sorted(out)


def int_probes(pty, bits, signed):
    """integers at and around the points where integer -> posit rounding changes"""
    p = pty.posit
    out = set()
    hi = (1 << (bits - 1)) - 1 if signed else (1 << bits) - 1
    for k in range(0, bits):
        for d in (-2, -1, 0, 1, 2):
            v = (1 << k) + d
            if 0 <= v <= hi:
                out.add(v)
    # midpoints between consecutive representable integers
    pm = S.Posit(p.n + 1, p.es)
    span = p.maxpos_bits - pty.one
    for i in range(0, 257):
        u = pty.one + span * i // 257
        a, b = p.decode(u), p.decode(u + 1)
        if a >= 1 and a.denominator == 1 and b.denominator == 1 and b - a >= 2:
            mid = pm.decode(2 * u + 1)
            if mid.denominator == 1:
                for d in (-1, 0, 1):
                    v = int(mid) + d
                    if 0 <= v <= hi:
                        out.add(v)
    if signed:
        out |= {(-v) for v in list(out)} | {-(1 << (bits - 1))}
    return sorted(out)


def ternary_probes(pty, level=1):
    """(a, b, c) triples for the fused family: exact-tie products with a tiny addend of either sign, exact cancellation, results next to
    maxpos / minpos, plain small values"""
    p = pty.posit
    m = p.mask
    one = pty.one
    V = [one, one + 1, one + 3, p.encode(Fraction(3, 2)), p.encode(Fraction(2)), p.encode(Fraction(3)), p.encode(Fraction(4)),
         p.encode(Fraction(1, 2)), p.encode(Fraction(1, 3)), p.maxpos_bits, p.maxpos_bits - 1, 1, 2, one - 1]
    if level > 1:
        V += [one + 2, p.encode(Fraction(5, 2)), p.encode(Fraction(10)), p.maxpos_bits - 2, 3, p.encode(Fraction(7))]
    V = sorted(set(V))
    Vs = V + [(-v) & m for v in (one, p.encode(Fraction(4)), p.encode(Fraction(3, 2)), p.maxpos_bits - 1, 1)]
    out = set()
    for a in Vs:
        for b in V:
            prod = p.decode(a) * p.decode(b)
            cs = {1, m, one, (-one) & m, p.maxpos_bits - 1, (-(p.maxpos_bits - 1)) & m, p.encode(Fraction(2)), (-p.encode(prod)) & m, p.encode(prod)}
            for c in cs:
                out.add((a, b, c))
    return sorted(out)


def singles(vals):
    return [(v, v) for v in vals]
