"""exact / high-precision specification of the elementary functions (oracle side, independent of the crate).

mpmath (pure Python, from the tooling venv) at 400 bits; a result is returned only when the posit rounding of (1-eps)y and (1+eps)y
agree (eps = 2^-300), otherwise None ("oracle undecided", never guessed).  Exact cases (zeros, poles, rational results) are decided
rationally before any floating-point evaluation.
"""
import glob
import sys
from fractions import Fraction

try:
    import mpmath
except ImportError:  # the system interpreter has no mpmath: use the tooling venv's pure-Python copy
    for p in glob.glob('/opt/veriftools/pyvenv/lib/python3*/site-packages'):
        sys.path.append(p)
    import mpmath

import spec as S

mpmath.mp.prec = 400
EPS = Fraction(1, 2 ** 300)


def _mpf(x: Fraction):
    return mpmath.mpf(x.numerator) / mpmath.mpf(x.denominator)


def _frac(y):
    """exact Fraction of an mpf"""
    man, exp = int(y.man), int(y.exp)
    s = -1 if y._mpf_[0] else 1
    return Fraction(s * man * (2 ** exp) if exp >= 0 else Fraction(s * man, 2 ** (-exp)))


def is_int(x):
    return x.denominator == 1


def is_half_int(x):
    return (2 * x).denominator == 1 and x.denominator != 1


def exact_or_none(fname, x):
    """('val', Fraction) | ('nar',) | None for the cases decidable rationally"""
    if fname in ('exp', 'exp2'):
        if x == 0:
            return ('val', Fraction(1))
        if fname == 'exp2' and is_int(x):
            return ('val', Fraction(2) ** int(x))
        return None
    if fname in ('ln', 'log2'):
        if x <= 0:
            return ('nar',)
        if x == 1:
            return ('val', Fraction(0))
        if fname == 'log2':
            n, d = x.numerator, x.denominator
            if (n & (n - 1)) == 0 and (d & (d - 1)) == 0:
                return ('val', Fraction(n.bit_length() - d.bit_length()))
        return None
    if fname == 'sin_pi':
        if is_int(x):
            return ('val', Fraction(0))
        if is_half_int(x):
            k = int((x - Fraction(1, 2)))
            return ('val', Fraction(1 if k % 2 == 0 else -1))
        r = x % 2
        for num, val in ((Fraction(1, 6), Fraction(1, 2)), (Fraction(5, 6), Fraction(1, 2)), (Fraction(7, 6), Fraction(-1, 2)), (Fraction(11, 6), Fraction(-1, 2))):
            if r == num:
                return ('val', val)
        return None
    if fname == 'cos_pi':
        if is_half_int(x):
            return ('val', Fraction(0))
        if is_int(x):
            return ('val', Fraction(1 if int(x) % 2 == 0 else -1))
        r = x % 2
        for num, val in ((Fraction(1, 3), Fraction(1, 2)), (Fraction(5, 3), Fraction(1, 2)), (Fraction(2, 3), Fraction(-1, 2)), (Fraction(4, 3), Fraction(-1, 2))):
            if r == num:
                return ('val', val)
        return None
    if fname == 'tan_pi':
        if is_int(x):
            return ('val', Fraction(0))
        if is_half_int(x):
            return ('nar',)
        r = x % 1
        if r == Fraction(1, 4):
            return ('val', Fraction(1))
        if r == Fraction(3, 4):
            return ('val', Fraction(-1))
        return None
    if fname in ('asin_pi', 'acos_pi'):
        if abs(x) > 1:
            return ('nar',)
        table = {Fraction(0): Fraction(0), Fraction(1): Fraction(1, 2), Fraction(-1): Fraction(-1, 2), Fraction(1, 2): Fraction(1, 6), Fraction(-1, 2): Fraction(-1, 6)}
        if x in table:
            a = table[x]
            return ('val', a if fname == 'asin_pi' else Fraction(1, 2) - a)
        return None
    if fname == 'atan_pi':
        if x == 0:
            return ('val', Fraction(0))
        if x == 1:
            return ('val', Fraction(1, 4))
        if x == -1:
            return ('val', Fraction(-1, 4))
        return None
    return None


def mp_eval(fname, x):
    mx = _mpf(x)
    pi = mpmath.pi
    if fname == 'exp':
        return mpmath.exp(mx)
    if fname == 'exp2':
        return mpmath.power(2, mx)
    if fname == 'ln':
        return mpmath.log(mx)
    if fname == 'log2':
        return mpmath.log(mx, 2)
    if fname == 'sin_pi':
        return mpmath.sinpi(mx)
    if fname == 'cos_pi':
        return mpmath.cospi(mx)
    if fname == 'tan_pi':
        return mpmath.sinpi(mx) / mpmath.cospi(mx)
    if fname == 'asin_pi':
        return mpmath.asin(mx) / pi
    if fname == 'acos_pi':
        return mpmath.acos(mx) / pi
    if fname == 'atan_pi':
        return mpmath.atan(mx) / pi
    if fname == 'sin':
        return mpmath.sin(mx)
    if fname == 'cos':
        return mpmath.cos(mx)
    if fname == 'tan':
        return mpmath.tan(mx)
    if fname == 'asin':
        return mpmath.asin(mx)
    if fname == 'acos':
        return mpmath.acos(mx)
    if fname == 'atan':
        return mpmath.atan(mx)
    if fname == 'sinh':
        return mpmath.sinh(mx)
    if fname == 'cosh':
        return mpmath.cosh(mx)
    if fname == 'tanh':
        return mpmath.tanh(mx)
    if fname == 'cbrt':
        return mpmath.cbrt(mx) if x >= 0 else -mpmath.cbrt(-mx)
    raise ValueError(fname)


def rounded(posit, fname, xbits):
    """correctly rounded encoding of f(decode(xbits)), or None when the oracle cannot decide"""
    x = posit.decode(xbits)
    if x == S.NAR:
        return posit.nar
    ex = exact_or_none(fname, x)
    if ex is not None:
        if ex[0] == 'nar':
            return posit.nar
        return posit.encode(ex[1])
    # huge arguments of exp overflow mpmath sensibly; clamp by the saturation knowledge
    if fname in ('exp', 'exp2') and abs(x) > 4096:
        return posit.maxpos_bits if x > 0 else posit.minpos_bits
    y = mp_eval(fname, x)
    if isinstance(y, mpmath.mpc) or mpmath.isnan(y):
        return None
    fy = _frac(mpmath.mpf(y))
    if fy == 0:
        return None
    a = posit.encode(fy * (1 - EPS))
    b = posit.encode(fy * (1 + EPS))
    if a != b:
        return None
    return a
