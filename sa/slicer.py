"""R5 - necessary dependence: conservative program-dependence slices over MIR.

deps(site) over-approximates everything the value assigned at `site` may depend on (data dependence through
locals at whole-local granularity, calls depend on all their arguments, plus control dependence on every
SwitchInt/Assert discriminant that decides whether the site executes).  Because dependence is over-approximated,
"X is NOT in deps" is a sound proof of independence.
"""


def _operand_locals(o, out):
    if isinstance(o, dict):
        pl = o.get('copy') or o.get('move')
        if pl is not None:
            out.add(pl['l'])
            for e in pl['p']:
                if isinstance(e, dict) and 'idx' in e:
                    out.add(e['idx'])


def _place_index_locals(pl, out):
    for e in pl['p']:
        if isinstance(e, dict) and 'idx' in e:
            out.add(e['idx'])


def rvalue_locals(rv):
    out = set()
    for k in ('op', 'a', 'b'):
        if k in rv:
            _operand_locals(rv[k], out)
    for o in rv.get('ops', []):
        _operand_locals(o, out)
    if 'place' in rv:
        out.add(rv['place']['l'])
        _place_index_locals(rv['place'], out)
    return out


class Slice:
    def __init__(self, body):
        self.body = body
        blocks = body['blocks']
        n = len(blocks)
        self.succ = [[] for _ in range(n)]
        for i, b in enumerate(blocks):
            t = b['term']
            k = t['t']
            if k == 'goto':
                self.succ[i] = [t['target']]
            elif k == 'switch':
                self.succ[i] = sorted(set([x[1] for x in t['targets']] + [t['otherwise']]))
            elif k in ('assert', 'drop'):
                self.succ[i] = [t['target']]
            elif k == 'call':
                self.succ[i] = [t['target']] if t['target'] >= 0 else []
            else:
                self.succ[i] = []
        self._postdom()
        self._control_deps()
        self._defs()

    def _postdom(self):
        n = len(self.succ)
        EXIT = n
        succ = [s if s else [EXIT] for s in self.succ] + [[]]
        allb = set(range(n + 1))
        pd = [set(allb) for _ in range(n + 1)]
        pd[EXIT] = {EXIT}
        changed = True
        while changed:
            changed = False
            for i in range(n - 1, -1, -1):
                new = set.intersection(*[pd[s] for s in succ[i]]) | {i}
                if new != pd[i]:
                    pd[i] = new
                    changed = True
        self.pd = pd

    def _control_deps(self):
        n = len(self.succ)
        self.cdep = [set() for _ in range(n)]   # block -> set of branching blocks it is control dependent on
        for a in range(n):
            if len(self.succ[a]) < 2:
                continue
            for s in self.succ[a]:
                # every block that post-dominates s but does not strictly post-dominate a
                for b in self.pd[s]:
                    if b < n and (b == a or b not in self.pd[a]):
                        self.cdep[b].add(a)

    def _points_to(self):
        """flow-insensitive may-point-to between locals: x -> set of locals whose storage x (or a part of x) may reference"""
        blocks = self.body['blocks']
        pts = {}
        nargs = self.body['arg_count']
        changed = True

        def add(dst, srcs):
            nonlocal changed
            cur = pts.setdefault(dst, set())
            n = len(cur)
            cur |= srcs
            if len(cur) != n:
                changed = True
        while changed:
            changed = False
            for b in blocks:
                for st in b['stmts']:
                    if st['s'] != 'assign':
                        continue
                    rv = st['rvalue']
                    dst = st['place']['l']
                    if rv['rv'] in ('ref', 'rawptr'):
                        pl = rv['place']
                        if 'deref' in pl['p']:
                            # a reborrow through a pointer parameter stands for the parameter's (external) referent: the parameter itself
                            ext = {pl['l']} if 1 <= pl['l'] <= nargs else set()
                            add(dst, set(pts.get(pl['l'], set())) | ext)
                        else:
                            add(dst, {pl['l']})
                    else:
                        for u in rvalue_locals(rv):
                            if u in pts:
                                add(dst, set(pts[u]))
                t = b['term']
                if t['t'] == 'call':
                    srcs = set()
                    for a in t['args']:
                        ls = set()
                        _operand_locals(a, ls)
                        for u in ls:
                            srcs |= pts.get(u, set())
                    if srcs:
                        add(t['dest']['l'], srcs)
        self.pts = pts

    def _defs(self):
        """local -> list of (block, set of locals used, kind)"""
        self._points_to()
        self.defs = {}
        blocks = self.body['blocks']
        for i, b in enumerate(blocks):
            for st in b['stmts']:
                if st['s'] == 'assign':
                    used = rvalue_locals(st['rvalue'])
                    pl = st['place']
                    tgt = pl['l']
                    if pl['p']:
                        used = set(used)
                        used.add(tgt)  # partial update keeps old content
                        _place_index_locals(pl, used)
                    self.defs.setdefault(tgt, []).append((i, used, 'assign'))
                    if 'deref' in pl['p']:
                        # write through a pointer: may update every local the pointer may reference
                        for tl in self.pts.get(tgt, ()):
                            self.defs.setdefault(tl, []).append((i, set(used) | {tl}, 'assign-through'))
            t = b['term']
            if t['t'] == 'call':
                used = set()
                for a in t['args']:
                    _operand_locals(a, used)
                tgt = t['dest']['l']
                if t['dest']['p']:
                    used.add(tgt)
                self.defs.setdefault(tgt, []).append((i, used, 'call'))
                # reference arguments may be written by the callee: referents depend on all arguments
                for a in t['args']:
                    pl = a.get('copy') or a.get('move') if isinstance(a, dict) else None
                    if pl is not None:
                        self.defs.setdefault(pl['l'], []).append((i, set(used), 'call-mut'))
                        for tl in self.pts.get(pl['l'], ()):
                            self.defs.setdefault(tl, []).append((i, set(used) | {tl}, 'call-mut'))

    def branch_locals(self, blk):
        t = self.body['blocks'][blk]['term']
        out = set()
        if t['t'] == 'switch':
            _operand_locals(t['discr'], out)
        return out

    def control_locals(self, blk, _seen=None):
        """locals deciding whether block blk executes (transitively through control dependence)"""
        out = set()
        seen = set()
        work = [blk]
        while work:
            b = work.pop()
            for a in self.cdep[b]:
                if a in seen:
                    continue
                seen.add(a)
                out |= self.branch_locals(a)
                work.append(a)
        return out

    def closure(self, seeds, include_control=True):
        """transitive dependence closure of a set of locals -> set of locals (args included)"""
        # references: `_x = &_y` makes _x depend on _y (handled as data dep through 'place')
        deps = set(seeds)
        work = list(seeds)
        while work:
            l = work.pop()
            for (blk, used, kind) in self.defs.get(l, []):
                new = set(used)
                if include_control:
                    new |= self.control_locals(blk)
                for u in new:
                    if u not in deps:
                        deps.add(u)
                        work.append(u)
        return deps

    def return_sites(self):
        """assignment sites of _0: list of (block, used locals, kind)"""
        return self.defs.get(0, [])

    def site_deps(self, site, include_control=True):
        blk, used, kind = site
        seeds = set(used)
        if include_control:
            seeds |= self.control_locals(blk)
        return self.closure(seeds, include_control)
