"""check framework: fact extraction, findings, known findings, evidence."""
import hashlib
import json
import os
import shutil
import subprocess
import sys
import tempfile
import time

HERE = os.path.dirname(os.path.abspath(__file__))
VERIF = os.path.dirname(HERE)
sys.path.insert(0, HERE)

from interp import Program  # noqa: E402

CONFIGS = {
    'default': [],
    'all': ['--features', 'std,rand,linalg'],
}


class Finding:
    def __init__(self, prop, rule, fn, instance, msg, details=None, alt=None):
        self.more_alt = []
        self.alt = alt      # optional second identity (rule, fn, instance): a known-findings entry under either key matches
        self.prop = prop
        self.rule = rule
        self.fn = fn
        self.instance = instance
        self.msg = msg
        self.details = details or {}

    @property
    def key(self):
        return ('%s/%s/%s/%s' % (self.prop, self.rule, self.fn, self.instance)).replace(' ', '_')

    @property
    def alt_key(self):
        return ('%s/%s/%s/%s' % ((self.prop,) + tuple(self.alt))).replace(' ', '_') if self.alt else None


class Ctx:
    def __init__(self, prop, tier='quick', seed=0):
        self.prop = prop
        self.tier = tier
        self.seed = seed
        self.t0 = time.time()
        # soft wall-clock budget of the cell rules: once it is used up the remaining cells are reported as not decided (never an alarm), so
        # that a change the interpreter can only follow by path enumeration slows a check down by a bounded amount instead of stalling it
        self.soft_budget_s = float(os.environ.get('VERIF_SOFT_BUDGET_S') or (900 if tier == 'quick' else 10800))
        self._progs = {}
        self._tmp = None
        self.findings = []
        self.cov = {}        # counters
        self.samples = []    # sample obligations/cells written to evidence
        self.notes = []
        self.assumptions = []
        self.trusted = []
        self.rules = []
        self.undecided = {}
        self.facts_dir = os.environ.get('VERIF_FACTS_DIR')

    def over_budget(self):
        return time.time() - self.t0 > self.soft_budget_s

    # ---------------------------------------------------------------- facts
    def prog(self, config='default'):
        if config in self._progs:
            return self._progs[config]
        if self.facts_dir:
            path = os.path.join(self.facts_dir, 'facts_%s.json' % config)
            if not os.path.exists(path):
                self._extract(config, path)
        else:
            if self._tmp is None:
                self._tmp = tempfile.mkdtemp(prefix='verif_facts.')
            path = os.path.join(self._tmp, 'facts_%s.json' % config)
            self._extract(config, path)
        p = Program(path)
        self._progs[config] = p
        self.count('bodies_loaded_' + config, len(p.bodies))
        return p

    def _extract(self, config, path):
        cmd = [os.path.join(HERE, 'extract.sh'), path, config] + CONFIGS[config]
        r = subprocess.run(cmd, stdout=subprocess.PIPE, stderr=subprocess.STDOUT, text=True)
        if r.returncode != 0 or not os.path.exists(path):
            print(r.stdout)
            print('FATAL: fact extraction failed for config %s (the repository does not build?)' % config)
            self.cleanup()
            sys.exit(2)

    def cleanup(self):
        if self._tmp:
            shutil.rmtree(self._tmp, ignore_errors=True)
            self._tmp = None

    # ---------------------------------------------------------------- reporting
    def count(self, k, n=1):
        self.cov[k] = self.cov.get(k, 0) + n

    def finding(self, rule, fn, instance, msg, details=None, prop=None, alt=None):
        f = Finding(prop or self.prop, rule, fn, instance, msg, details, alt)
        for g in self.findings:
            if g.key == f.key:
                if f.alt_key and f.alt_key not in g.more_alt and f.alt_key != g.alt_key:
                    g.more_alt.append(f.alt_key)
                return g
        self.findings.append(f)
        return f

    def sample(self, s, limit=12):
        if len(self.samples) < limit:
            self.samples.append(s)

    def require(self, what, n, floor):
        """V4: fail closed when a rule matched fewer instances than confirmed by hand."""
        self.cov['floor:' + what] = floor
        self.cov['count:' + what] = n
        if n < floor:
            self.finding('FLOOR', what, 'count', 'rule instance count %d fell below the confirmed floor %d (anchor missing or rule vacuous)' % (n, floor),
                         {'count': n, 'floor': floor})

    def anchor(self, prog, path):
        if path not in prog.bodies and path not in prog.consts:
            self.finding('ANCHOR', path, 'missing', 'anchor function %s not found in the extracted program' % path)
            return False
        return True


def load_known():
    """known_findings.txt: 'known: property=<id> key=<key> :: <what>' lines suppress exactly that key"""
    import re
    path = os.path.join(VERIF, 'known_findings.txt')
    known = {}
    if os.path.exists(path):
        for line in open(path):
            line = line.strip()
            m = re.match(r'known:\s+property=(\S+)\s+key=(\S+)\s+::\s*(.*)$', line)
            if m:
                known[m.group(2)] = {'property': m.group(1), 'key': m.group(2), 'what': m.group(3)}
    return known


def finish(ctx, level, explanation, extra_cov=None):
    """print findings, write replay files + evidence, return exit code"""
    known = load_known()
    viol = 0
    kn = 0
    rdir = os.path.join(os.environ.get('VERIF_REPLAY_DIR') or os.path.join(VERIF, 'replay'), ctx.prop)
    for f in ctx.findings:
        if os.environ.get('VERIF_SHOW_KEYS'):
            for a in [f.alt_key] + f.more_alt:
                if a:
                    print('ENTRY-KEY-OF %s %s' % (f.key, a))
        # a finding is known when its site identity is listed, or when every way it was reached (entry identity) is listed
        alts = [a for a in [f.alt_key] + f.more_alt if a]
        kk = f.key if f.key in known else (alts[0] if alts and all(a in known for a in alts) else None)
        if kk:
            kn += 1
            print('KNOWN-FINDING: property=%s key=%s %s' % (f.prop, kk, known[kk].get('what', f.msg)))
            continue
        viol += 1
        os.makedirs(rdir, exist_ok=True)
        h = hashlib.sha1(f.key.encode()).hexdigest()[:12]
        rp = os.path.join(rdir, '%s.json' % h)
        with open(rp, 'w') as fh:
            json.dump({'property': f.prop, 'key': f.key, 'entry_keys': [a for a in [f.alt_key] + f.more_alt if a], 'rule': f.rule, 'function': f.fn, 'instance': f.instance,
                       'message': f.msg, 'details': f.details, 'tier': ctx.tier}, fh, indent=1, default=str)
        print('FINDING %s: %s' % (f.key, f.msg))
        for a in [f.alt_key] + f.more_alt:
            if a and a not in known:
                print('  ENTRY-KEY %s' % a)
        print('VIOLATION property=%s replay=%s' % (f.prop, rp))
    wall = time.time() - ctx.t0
    cov = dict(ctx.cov)
    if extra_cov:
        cov.update(extra_cov)
    cov['explanation'] = explanation
    cov['rules'] = ctx.rules
    cov['samples'] = ctx.samples if ctx.samples else ['(none)']
    cov['trusted_base'] = ctx.trusted
    cov['known_findings_reported'] = kn
    cov['not_decided'] = ctx.undecided
    cov['notes'] = ctx.notes
    ev = {
        'property_id': ctx.prop,
        'tier': ctx.tier,
        'seed': ctx.seed,
        'level': level,
        'coverage': cov,
        'assumptions': ctx.assumptions,
        'wall_s': round(wall, 2),
        'violations': viol,
    }
    if not os.environ.get('VERIF_NO_EVIDENCE'):
        os.makedirs(os.path.join(VERIF, 'evidence'), exist_ok=True)
        with open(os.path.join(VERIF, 'evidence', '%s.json' % ctx.prop), 'w') as fh:
            json.dump(ev, fh, indent=1, default=str)
    ctx.cleanup()
    print('%s %s: findings=%d known=%d violations=%d wall=%.1fs' % (ctx.prop, ctx.tier, len(ctx.findings), kn, viol, wall))
    return 1 if viol else 0
