"""R2 - guarded-cell results (GCR).

For a function and a partition of its input space into cells, the abstract interpreter is run once per
cell in determinate mode.  When the run is control-determinate and the returned value is a constant, the
argument itself or its negation, the verdict holds for *every* input of the cell; the exact specification
is then evaluated on witness points of the cell (end points, neighbours, interior points).  A mismatch at a
witness is a definite violation (V1): the function returns obtained(x) != spec(x) for that x.
"""
from fractions import Fraction

from aval import AInt, AAgg, AFloat, ATop, ARef, mask, to_signed
from interp import Interp
from interp import site_key, short_fn, entry_label
import spec as S


class PTy:
    def __init__(self, name, tykey, bits, es, signed_field=True):
        self.name = name
        self.tykey = tykey
        self.bits = bits
        self.es = es
        self.posit = S.Posit(bits, es)
        self.nar = 1 << (bits - 1)
        self.one = 1 << (bits - 2)
        self.maxpos = self.nar - 1


P8 = PTy('P8E0', 'p8e0::P8E0', 8, 0)
P16 = PTy('P16E1', 'p16e1::P16E1', 16, 1)
P32 = PTy('P32E2', 'p32e2::P32E2', 32, 2)
PTYS = [P8, P16, P32]


def posit_arg(pty, ulo, uhi, idx, tykey=None):
    lo, hi = to_signed(ulo, pty.bits), to_signed(uhi, pty.bits)
    assert lo <= hi, (hex(ulo), hex(uhi))
    return AAgg(tykey or pty.tykey, [AInt(pty.bits, True, lo, hi, term=('in', idx))])


def int_arg(bits, signed, lo, hi, idx):
    return AInt(bits, signed, lo, hi, term=('in', idx))


def float_arg(bits, ulo, uhi, idx):
    return AFloat(bits, AInt(bits, False, ulo, uhi, term=('in', idx)))


def collect_literals(prog, path, depth=3, skip=(), _seen=None):
    """integer literals of the body and of the local callees reachable within `depth` calls"""
    if _seen is None:
        _seen = set()
    out = set()
    if path in _seen or depth < 0:
        return out
    _seen.add(path)
    body = prog.bodies.get(path) or prog.consts.get(path)
    if body is None:
        return out

    def opnd(o):
        if isinstance(o, dict) and 'const' in o:
            c = o['const']
            if 'scalar' in c and isinstance(c['scalar'], int):
                out.add(c['ubits'])
                out.add(c['scalar'])

    for blk in body['blocks']:
        for st in blk['stmts']:
            if st['s'] == 'assign':
                rv = st['rvalue']
                for k in ('op', 'a', 'b'):
                    if k in rv:
                        opnd(rv[k])
                for o in rv.get('ops', []):
                    opnd(o)
        t = blk['term']
        if t['t'] == 'switch':
            for v, _ in t['targets']:
                out.add(v)
        if t['t'] == 'call':
            for a in t['args']:
                opnd(a)
            c = t['callee']
            cp = c.get('resolved') or c.get('orig')
            if cp and cp in prog.bodies and not any(s in cp for s in skip):
                out |= collect_literals(prog, cp, depth - 1, skip, _seen)
    return out


DECODE_HELPERS = ('separate_bits', 'calculate_scale', 'calculate_regime', 'pack_to_ui')


def cuts_to_cells(bits, lits, extra=(), signed_boundary=True, max_cells=4000):
    """partition [0, 2^bits) into singleton cells at every cut point and the open intervals between them.
    Cells never straddle the sign boundary (so each is an interval in both the signed and unsigned view)."""
    m = mask(bits)
    pts = set()
    for c in list(lits) + list(extra):
        for v in (c, c - 1, c + 1, -c, -c - 1, -c + 1):
            pts.add(v & m)
    for v in (0, 1, m, m >> 1, (m >> 1) + 1, (m >> 1) + 2, 1 << (bits - 2), (1 << (bits - 2)) | (1 << (bits - 1))):
        pts.add(v & m)
    pts = sorted(pts)
    if len(pts) > max_cells:
        pts = pts[:max_cells]
    cells = []
    prev = -1
    for p in pts:
        if p - 1 > prev:
            cells.append((prev + 1, p - 1))
        cells.append((p, p))
        prev = p
    if prev < m:
        cells.append((prev + 1, m))
    # split at sign boundary
    out = []
    sb = 1 << (bits - 1)
    for lo, hi in cells:
        if signed_boundary and lo < sb <= hi:
            out.append((lo, sb - 1))
            out.append((sb, hi))
        else:
            out.append((lo, hi))
    return out


def witnesses(lo, hi, n=9):
    pts = {lo, hi}
    if hi - lo >= 1:
        pts |= {lo + 1, hi - 1}
    if hi - lo >= 4:
        for i in range(1, n):
            pts.add(lo + (hi - lo) * i // n)
    return sorted(pts)


def describe(v):
    """descriptor of an abstract return value: ('const', ubits) | ('id', i) | ('neg', i) | ('top',)"""
    if isinstance(v, AAgg) and len(v.fields) == 1:
        return describe(v.fields[0])
    if isinstance(v, AAgg) and not v.fields:
        return ('const', v.variant)
    if isinstance(v, AAgg):
        ds = [describe(f) for f in v.fields]
        return ('tuple', ds)
    if isinstance(v, AFloat):
        if v.pat is None:
            return ('top',)
        return describe(v.pat)
    if isinstance(v, AInt):
        if v.is_const():
            return ('const', v.uval())
        t = v.term
        if isinstance(t, tuple):
            if t[0] == 'in':
                return ('id', t[1])
            if t[0] == 'neg' and isinstance(t[1], tuple) and t[1][0] == 'in':
                return ('neg', t[1][1])
            if t[0] == 'index':
                return ('index', t[1], t[2])
            if t[0] == 'not' and isinstance(t[1], tuple) and t[1][0] == 'in':
                return ('not', t[1][1])
        return ('top',)
    return ('top',)


def eval_term(t, xs):
    k = t[0]
    if k == 'in':
        return xs[t[1]]
    if k == 'zext':
        return eval_term(t[1], xs) & mask(t[2])
    if k == 'sext':
        return to_signed(eval_term(t[1], xs), t[2]) & mask(t[3])
    if k == 'trunc':
        return eval_term(t[1], xs) & mask(t[2])
    if k == 'neg':
        return -eval_term(t[1], xs)
    raise ValueError(t)


def obtained_at(desc, xs, out_bits, tables=None):
    k = desc[0]
    if k == 'index':
        i = eval_term(desc[2], xs)
        return tables[desc[1]][i] & mask(out_bits)
    if k == 'const':
        return desc[1] & mask(out_bits)
    if k == 'id':
        return xs[desc[1]] & mask(out_bits)
    if k == 'neg':
        return (-xs[desc[1]]) & mask(out_bits)
    if k == 'not':
        return (~xs[desc[1]]) & mask(out_bits)
    return None


class CellResult:
    __slots__ = ('cell', 'kind', 'desc', 'where', 'why', 'assumed')

    def __init__(self, cell, kind, desc=None, where=None, why=None, assumed=0):
        self.cell = cell
        self.kind = kind
        self.desc = desc
        self.where = where
        self.why = why
        self.assumed = assumed


def fmt_cell(cell):
    return 'x'.join('[%#x,%#x]' % c if c[0] != c[1] else '{%#x}' % c[0] for c in cell)


def run_cells(ctx, prog, rule, fn_label, path, mkargs, cellsets, spec, out_bits, gargs=None, interp=None,
              panic_is_violation=True, max_product=6000, exempt_panic=None, exhaustive_limit=0, extract=None, flat=None, key_label=None):
    """evaluate `path` on the product of `cellsets` (one list of (lo,hi) per argument).
    mkargs(cell_tuple) -> abstract argument list.  spec(xs) -> expected output bits, or None (excluded).
    Returns statistics dict."""
    import itertools
    I = interp or Interp(prog)
    stats = {'cells': 0, 'decided_const': 0, 'decided_id': 0, 'decided_neg': 0, 'general_path': 0, 'undecided': 0,
             'panic': 0, 'budget': 0, 'witnesses': 0, 'excluded': 0, 'unsupported': 0, 'points': 0, 'points_decided': 0,
             'points_checked_exhaustively': 0, 'decided_index': 0}
    prod = 1
    for cs in cellsets:
        prod *= len(cs)
    if prod > max_product:
        raise ValueError('cell product too large for %s: %d' % (path, prod))
    for cell in itertools.product(*cellsets):
        stats['cells'] += 1
        try:
            cell_args = mkargs(cell)
            out = I.run(path, cell_args, gargs)
        except Exception as e:  # interpreter limitation: not a verdict
            stats['unsupported'] += 1
            ctx.undecided.setdefault('unsupported', []).append('%s %s: %s: %s' % (fn_label, fmt_cell(cell), type(e).__name__, e))
            continue
        size = 1
        for lo, hi in cell:
            size *= (hi - lo + 1)
        stats['points'] += size
        if size <= exhaustive_limit:
            wits = list(itertools.product(*[range(lo, hi + 1) for lo, hi in cell]))
            exhaustive = True
        else:
            k = len(cell)
            if k <= 3:
                wits = list(itertools.product(*[witnesses(lo, hi, {1: 9, 2: 5, 3: 3}[k]) for lo, hi in cell]))
            else:
                wits = list(itertools.product(*[sorted({lo, hi}) for lo, hi in cell]))
                if len(wits) > 300:
                    wits = wits[:100] + wits[len(wits) // 2 - 50:len(wits) // 2 + 50] + wits[-100:]
            exhaustive = False
        if out.kind == 'return':
            desc = describe(extract(I, out, cell_args) if extract else out.value)
            if isinstance(out_bits, (list, tuple)) and desc[0] != 'tuple':
                desc = ('tuple', [desc])
            multi = desc[0] == 'tuple'
            if desc[0] == 'top' or (multi and (out_bits is None or not isinstance(out_bits, (list, tuple)) or any(d[0] in ('top', 'tuple') for d in desc[1]))):
                stats['general_path'] += 1
                continue
            stats['decided_' + (desc[0] if not multi else 'const')] += 1
            stats['points_decided'] += size
            if exhaustive:
                stats['points_checked_exhaustively'] += size
            bad = None
            nchk = 0
            for xs in wits:
                fx = flat(xs) if flat else xs
                exp = spec(fx)
                if exp is None:
                    stats['excluded'] += 1
                    continue
                nchk += 1
                if multi:
                    got = [obtained_at(d, fx, b, I.tables) for d, b in zip(desc[1], out_bits)]
                    expm = [e & mask(b) for e, b in zip(exp, out_bits)]
                    if got != expm:
                        bad = (fx, sum(e << (64 * i) for i, e in enumerate(reversed(expm))), sum(g << (64 * i) for i, g in enumerate(reversed(got))))
                        break
                    continue
                got = obtained_at(desc, fx, out_bits, I.tables)
                if got != (exp & mask(out_bits)):
                    bad = (fx, exp, got)
                    break
            stats['witnesses'] += nchk
            if bad:
                xs, exp, got = bad
                ctx.finding(rule, key_label or fn_label, ('cell=' + fmt_cell(cell)) if not key_label else 'values',
                            '%son cell %s every input returns %s but the specification gives %#x for input %s (obtained %#x)'
                            % ((fn_label + ': ') if key_label else '', fmt_cell(cell), desc, exp, tuple(hex(x) for x in xs), got),
                            {'cell': cell, 'descriptor': desc, 'witness': [hex(x) for x in xs], 'expected': hex(exp),
                             'obtained': hex(got), 'function': path, 'assumed': out.assumed[:5]})
            else:
                ctx.sample({'fn': fn_label, 'cell': fmt_cell(cell), 'result': desc, 'witnesses_checked': nchk})
        elif out.kind == 'undecided':
            stats['undecided'] += 1
        elif out.kind in ('panic', 'budget'):
            stats[out.kind] += 1
            if exempt_panic and exempt_panic(cell, out):
                stats['excluded'] += 1
                continue
            # a definite panic / non-termination on the whole cell: violation unless the spec excludes all witnesses
            if panic_is_violation and any(spec(flat(xs) if flat else xs) is not None for xs in wits):
                site = getattr(out, 'site', None)
                if out.kind == 'panic' and site:
                    # keyed by the failing site (function, assertion kind, ordinal), not by the input: one finding per site
                    ctx.finding('PANIC', *site_key(site),
                                '%s at %s: reached with every input of cell %s of %s (first witness); the operation does not return in an overflow-checked build'
                                % (out.value, out.where, fmt_cell(cell), fn_label),
                                {'cell': cell, 'event': out.kind, 'kind': out.value, 'where': out.where, 'function': path, 'entry': fn_label},
                                alt=('PANIC@', entry_label(fn_label), site_key(site)[1]))
                else:
                    ctx.finding(rule, fn_label, 'cell=' + fmt_cell(cell),
                                'on cell %s the function does not return: %s %s at %s' % (fmt_cell(cell), out.kind, out.value, out.where),
                                {'cell': cell, 'event': out.kind, 'kind': out.value, 'where': out.where, 'function': path, 'why': out.why})
    for k, v in stats.items():
        ctx.count(k, v)
    ctx.count('functions', 1)
    return stats
