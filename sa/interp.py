"""E2 - abstract interpreter over the MIR facts emitted by mirdump.

Determinate mode: evaluates one *cell* (abstract arguments).  Every SwitchInt must be decided by the
abstract values; otherwise the run stops with an 'undecided' outcome (or, for an inlined callee, the
caller continues with an unknown result - the "callee returns" assumption recorded in outcome.assumed).
May mode (fork=True): undecided branches fork the whole abstract state with refinement of the tested
variable; all paths are explored up to a budget.

Nothing here runs the crate: it interprets compiler IR over abstract values.
"""
import copy
import json
import re

from aval import (AInt, AFloat, AAgg, ARef, ATop, AFn, ASym, mask, to_signed)
import aval


def short_fn(path):
    """function path without module segments (free functions keep their top-level module): moves between modules do not change it"""
    if '<' in path:
        if '<impl' in path:
            path = path[path.index('<impl'):]
        return re.sub(r'\b(?:[a-z_][a-z_0-9]*::)+(?=[A-Za-z_<])', '', path)
    segs = path.split('::')
    return segs[0] + '::' + segs[-1] if len(segs) > 2 else path


def entry_label(label):
    """entry-function label with the bound width abstracted: PxE2<32>::from_p8e0 -> PxE2<N>::from_p8e0"""
    return re.sub(r'<\d+>', '<N>', label)


def site_key(site):
    """(function, instance) strings of a panic site for finding keys"""
    return short_fn(site[0]), site[1] + ('(%s)' % site[2] if site[2] else '')


class Undecided(Exception):
    def __init__(self, where, why):
        self.where = where
        self.why = why


class Panic(Exception):
    def __init__(self, kind, where, msg=None, site=None):
        self.kind = kind
        self.where = where
        self.msg = msg
        self.site = site    # (function path, kind, ordinal among the function's terminators of that kind): line-free identity


class Infeasible(Exception):
    pass


class Budget(Exception):
    def __init__(self, where):
        self.where = where


class Unsupported(Exception):
    pass


def norm_path(s):
    return re.sub(r'\bstd::', 'core::', s) if 'std::' in s else s


def _norm_all(o):
    if isinstance(o, str):
        return norm_path(o)
    if isinstance(o, list):
        return [_norm_all(x) for x in o]
    if isinstance(o, dict):
        return {(_norm_all(k) if isinstance(k, str) else k): _norm_all(v) for k, v in o.items()}
    return o


class Program:
    def __init__(self, facts_path):
        with open(facts_path) as f:
            d = json.load(f)
        d = _norm_all(d)
        self.facts = d
        self.tag = d.get('tag')
        self.types = d['types']
        self.bodies = {b['path']: b for b in d['bodies']}
        self.consts = {b['path']: b for b in d['consts']}
        self.impls = d['impls']
        self.aliases = d['aliases']
        self.adts = d['adts']
        self.traits = d['traits']
        self._const_cache = {}
        # impl lookup: (trait path, self type key) -> impl
        self.impl_index = {}
        for im in self.impls:
            if im['trait']:
                self.impl_index.setdefault((im['trait']['path'], im['self']), []).append(im)

    def ty(self, key):
        t = self.types.get(key)
        if t is None:
            # a few primitive keys may be missing from the table
            m = re.fullmatch(r'([iu])(8|16|32|64|128|size)', key)
            if m:
                b = 64 if m.group(2) == 'size' else int(m.group(2))
                return {'k': 'int', 'signed': m.group(1) == 'i', 'bits': b}
            if key == 'bool':
                return {'k': 'bool'}
            raise KeyError(key)
        return t

    def inherent(self, ty, name):
        """path of the inherent method `name` of type `ty` ('p8e0::P8E0', 'pxe2::PxE2<N>'), wherever its impl block lives"""
        key = (ty, name)
        if not hasattr(self, '_inh'):
            self._inh = {}
            for p, b in self.bodies.items():
                if b['defkind'] != 'AssocFn' or b['name'] is None:
                    continue
                m = re.match(r'^(?:.*::)?<impl ([^<>]+(?:<[^<>]*>)?)>::(\w+)$', p)
                if m and ' for ' not in m.group(1) and ' as ' not in p:
                    self._inh.setdefault((m.group(1), m.group(2)), []).append(p)
                    continue
                m = re.match(r'^([a-z0-9_:]*[A-Z]\w*)(?:::<([^<>]*)>)?::(\w+)$', p)
                if m:
                    t = m.group(1) + ('<%s>' % m.group(2) if m.group(2) else '')
                    self._inh.setdefault((t, m.group(3)), []).append(p)
        c = self._inh.get(key, [])
        return c[0] if len(c) == 1 else None

    def find_impl_method(self, trait_path, self_ty, name):
        for im in self.impl_index.get((trait_path, self_ty), []):
            for it in im['items']:
                if it['name'] == name:
                    return it['path'], im
        return None, None


class Frame:
    __slots__ = ('body', 'locals', 'genv', 'depth', 'fid')
    _next = 0

    def __init__(self, body, genv, depth):
        self.body = body
        self.locals = [None] * len(body['locals'])
        self.genv = genv
        self.depth = depth
        Frame._next += 1
        self.fid = Frame._next


class Outcome:
    def __init__(self, kind, value=None, where=None, why=None):
        self.kind = kind  # 'return' | 'panic' | 'undecided' | 'budget'
        self.value = value
        self.where = where
        self.why = why
        self.assumed = []   # callee-returns assumptions, unknown asserts assumed to pass
        self.trace = []
        self.site = None
        self.steps = 0

    def __repr__(self):
        return 'Outcome(%s, %r, %s, %s)' % (self.kind, self.value, self.where, self.why)


class AIter:
    """abstract iterator over literal-length arrays / integer ranges with concrete positions (core iterator protocol model)"""
    __slots__ = ('kind', 'a', 'b', 'lo', 'hi', 'meta')

    def __init__(self, kind, a=None, b=None, lo=0, hi=0, meta=None):
        self.kind = kind      # 'slice' (a = ARef to the aggregate), 'range' (meta = (bits, signed)), 'rev' (a), 'zip' (a, b), 'enum' (a, lo = counter)
        self.a = a
        self.b = b
        self.lo = lo
        self.hi = hi
        self.meta = meta

    def clone(self):
        return AIter(self.kind, self.a.clone() if isinstance(self.a, AIter) else self.a, self.b.clone() if isinstance(self.b, AIter) else self.b,
                     self.lo, self.hi, self.meta)

    def length(self):
        if self.kind in ('slice', 'range'):
            return max(0, self.hi - self.lo)
        if self.kind in ('rev', 'enum'):
            return self.a.length()
        if self.kind == 'zip':
            return min(self.a.length(), self.b.length())

    def item(self, i):
        if self.kind == 'slice':
            base = self.a
            return ARef(base.frame, base.local, list(base.proj) + [{'cidx': i, 'min': 0, 'from_end': False}], base.mut)
        bits, signed = self.meta
        return AInt.const(bits, signed, i, taint='lit')

    def next(self):
        k = self.kind
        if k in ('slice', 'range'):
            if self.lo >= self.hi:
                return None
            v = self.item(self.lo)
            self.lo += 1
            return v
        if k == 'rev':
            return self.a.next_back()
        if k == 'zip':
            x = self.a.next()
            if x is None:
                return None
            y = self.b.next()
            if y is None:
                return None
            return AAgg('(tuple)', [x, y])
        if k == 'enum':
            x = self.a.next()
            if x is None:
                return None
            i = self.lo
            self.lo += 1
            return AAgg('(tuple)', [AInt.const(64, False, i, taint='lit'), x])

    def next_back(self):
        k = self.kind
        if k in ('slice', 'range'):
            if self.lo >= self.hi:
                return None
            self.hi -= 1
            return self.item(self.hi)
        if k == 'rev':
            return self.a.next()
        if k == 'zip':
            la, lb = self.a.length(), self.b.length()
            while la > lb:
                self.a.next_back()
                la -= 1
            while lb > la:
                self.b.next_back()
                lb -= 1
            x = self.a.next_back()
            if x is None:
                return None
            return AAgg('(tuple)', [x, self.b.next_back()])
        if k == 'enum':
            n = self.a.length()
            x = self.a.next_back()
            if x is None:
                return None
            return AAgg('(tuple)', [AInt.const(64, False, self.lo + n - 1, taint='lit'), x])

    def __repr__(self):
        return 'Iter<%s %s..%s>' % (self.kind, self.lo, self.hi)


def copyval(v):
    if isinstance(v, AAgg):
        return AAgg(v.ty, [copyval(f) for f in v.fields], v.variant, v.origin)
    if isinstance(v, AIter):
        return v.clone()
    return v


class Interp:
    def __init__(self, prog, max_steps=60000, call_hook=None, unknown_callee_top=True, record_trace=False,
                 max_depth=40):
        self.p = prog
        self.max_steps = max_steps
        self.call_hook = call_hook
        self.unknown_callee_top = unknown_callee_top
        self.record_trace = record_trace
        self.max_depth = max_depth
        self.steps = 0
        self.assumed = []
        self.trace = []
        self.events = []       # observer events (calls with abstract args etc.)
        self.tables = {}       # origin path -> literal table contents (R4)
        self.fork = False      # may-mode: undecided branches fork (by re-execution with a decision script)
        self.script = []
        self.pos = 0
        self.fanout = []
        self.live_frames = []
        self.call_observer = None
        self.assert_observer = None

    # ------------------------------------------------------------------ types / defaults
    def top_of(self, tykey, genv=None):
        try:
            t = self.p.ty(tykey)
        except KeyError:
            return ATop(tykey)
        k = t['k']
        if k == 'int':
            return AInt.top(t['bits'], t['signed'])
        if k == 'bool':
            return AInt.boolean(None)
        if k == 'float':
            return AFloat(t['bits'], None)
        if k == 'tuple':
            return AAgg(tykey, [self.top_of(e, genv) for e in t['elems']])
        if k == 'adt' and t['adt'] == 'struct' and t['variants']:
            return AAgg(tykey, [self.top_of(f['ty'], genv) for f in t['variants'][0]['fields']])
        if k == 'array':
            n = self.const_len(t['len'], genv)
            if n is not None and n <= 64:
                return AAgg(tykey, [self.top_of(t['elem'], genv) for _ in range(n)])
        return ATop(tykey)

    def const_len(self, c, genv):
        if 'v' in c:
            return c['v']
        if 'param' in c and genv and c['param'] in genv:
            return genv[c['param']]
        return None

    # ------------------------------------------------------------------ constants
    def decode_bytes(self, tykey, data, off, genv):
        t = self.p.ty(tykey)
        k = t['k']
        if k == 'int':
            n = t['bits'] // 8
            v = int.from_bytes(data[off:off + n], 'little')
            return AInt.const(t['bits'], t['signed'], v, taint='lit')
        if k == 'bool':
            return AInt.boolean(data[off] != 0)
        if k == 'float':
            n = t['bits'] // 8
            return AFloat(t['bits'], AInt.const(t['bits'], False, int.from_bytes(data[off:off + n], 'little')))
        if k == 'tuple':
            return AAgg(tykey, [self.decode_bytes(e, data, off + o, genv) for e, o in zip(t['elems'], t['offsets'])])
        if k == 'array':
            n = self.const_len(t['len'], genv)
            et = self.p.ty(t['elem'])
            esz = self.size_of(t['elem'])
            return AAgg(tykey, [self.decode_bytes(t['elem'], data, off + i * esz, genv) for i in range(n)])
        if k == 'adt':
            if t['adt'] == 'struct':
                fs = t['variants'][0]['fields']
                return AAgg(tykey, [self.decode_bytes(f['ty'], data, off + o, genv) for f, o in zip(fs, t['offsets'])])
            if t['adt'] == 'enum' and all(not v['fields'] for v in t['variants']):
                sz = t.get('size', 1)
                d = int.from_bytes(data[off:off + sz], 'little')
                for i, v in enumerate(t['variants']):
                    if (v['discr'] & mask(sz * 8)) == d:
                        return AAgg(tykey, [], i)
        raise Unsupported('decode_bytes %s' % tykey)

    def size_of(self, tykey):
        t = self.p.ty(tykey)
        if t['k'] in ('int', 'float'):
            return t['bits'] // 8
        if t['k'] == 'bool':
            return 1
        if 'size' in t:
            return t['size']
        raise Unsupported('size_of %s' % tykey)

    def scalar_to_value(self, tykey, ubits, genv):
        t = self.p.ty(tykey)
        k = t['k']
        if k == 'int':
            return AInt.const(t['bits'], t['signed'], ubits, taint='lit')
        if k == 'bool':
            return AInt.boolean(ubits != 0)
        if k == 'char':
            return AInt.const(32, False, ubits, taint='lit')
        if k == 'float':
            return AFloat(t['bits'], AInt.const(t['bits'], False, ubits))
        if k == 'adt':
            if t['adt'] == 'struct':
                fs = t['variants'][0]['fields']
                # newtype around a scalar: find the single non-ZST field
                out = []
                placed = False
                for f in fs:
                    ft = self.p.ty(f['ty'])
                    if self._is_zst(f['ty']):
                        out.append(AAgg(f['ty'], []))
                    else:
                        assert not placed
                        out.append(self.scalar_to_value(f['ty'], ubits, genv))
                        placed = True
                return AAgg(tykey, out)
            if t['adt'] == 'enum':
                for i, v in enumerate(t['variants']):
                    if not v['fields'] and (v['discr'] & mask(8 * t.get('size', 1))) == ubits:
                        return AAgg(tykey, [], i)
        if k == 'tuple' and len(t['elems']) >= 1:
            out = []
            for e in t['elems']:
                if self._is_zst(e):
                    out.append(AAgg(e, []))
                else:
                    out.append(self.scalar_to_value(e, ubits, genv))
            return AAgg(tykey, out)
        raise Unsupported('scalar const of type %s' % tykey)

    def _is_zst(self, tykey):
        t = self.p.ty(tykey)
        if t['k'] == 'tuple' and not t['elems']:
            return True
        if t['k'] in ('fndef',):
            return True
        return t.get('size') == 0

    def eval_const(self, c, frame):
        genv = frame.genv if frame else {}
        tykey = c['ty']
        if 'fn' in c:
            return AFn(c['fn'], self.subst_args(c.get('args', []), genv))
        if 'scalar' in c:
            return self.scalar_to_value(tykey, c['ubits'], genv)
        if 'zst' in c:
            t = self.p.ty(tykey)
            if t['k'] == 'fndef':
                return AFn(t['path'], self.subst_args(t.get('args', []), genv))
            if t['k'] == 'closure':
                return AFn(t['path'], None, [])
            return AAgg(tykey, [])
        if 'param' in c:
            v = genv.get(c['param'])
            if v is None:
                return self.top_of(tykey, genv)
            t = self.p.ty(tykey)
            if t['k'] == 'bool':
                return AInt.boolean(bool(v))
            return AInt.const(t['bits'], t['signed'], v, taint='N')
        if 'ptr' in c:
            t = self.p.ty(tykey)
            inner = t['to']
            it = self.p.ty(inner)
            if 'bytes' in c and it['k'] not in ('str', 'slice', 'dyn'):
                val = self.decode_bytes(inner, bytes.fromhex(c['bytes']), c.get('off', 0), genv)
                fr = _static_frame(val)
                return ARef(fr, 0, [])
            return ATop(tykey)
        if 'bytes' in c:
            v = self.decode_bytes(tykey, bytes.fromhex(c['bytes']), c.get('off', 0), genv)
            if isinstance(v, AAgg) and c.get('origin') and c.get('promoted', -1) < 0:
                v.origin = c['origin']
                self.tables[c['origin']] = [f.uval() if isinstance(f, AInt) else None for f in v.fields]
            return v
        if 'slice' in c:
            return ATop(tykey)
        if 'uneval' in c:
            args = self.subst_args(c['args'], genv)
            key = (c['uneval'], json.dumps(args, sort_keys=True), c.get('promoted', -1))
            if key in self.p._const_cache:
                return copyval(self.p._const_cache[key])
            if c.get('promoted', -1) >= 0:
                owner = self.p.bodies.get(c['uneval']) or self.p.consts.get(c['uneval'])
                body = owner['promoted'][c['promoted']]
            else:
                body = self.p.consts.get(c['uneval'])
                if body is None:
                    # trait associated const referenced through a type parameter: resolve by impl
                    body = self.resolve_assoc_const(c['uneval'], args)
                    if body is None:
                        return self.top_of(tykey, genv)
            sub = self.bind_generics(body, args)
            val = self.run_body(body, sub, [], (frame.depth + 1) if frame else 0)
            self.p._const_cache[key] = val
            return copyval(val)
        if 'opaque' in c:
            return self.top_of(tykey, genv)
        raise Unsupported('const %r' % (c,))

    def resolve_assoc_const(self, path, args):
        # path like "Trait::NAME" with args [Self, ...]
        m = re.match(r'(.*)::([A-Za-z_0-9]+)$', path)
        if not m or not args or 'ty' not in args[0]:
            return None
        trait, name = m.group(1), m.group(2)
        p, im = self.p.find_impl_method(trait, args[0]['ty'], name)
        if p:
            return self.p.consts.get(p)
        return None

    def subst_args(self, args, genv):
        out = []
        for a in args or []:
            if 'param' in a and a['param'] in genv:
                out.append({'v': genv[a['param']]})
            elif 'ty' in a and isinstance(genv.get(('ty', a['ty'])), str):
                out.append({'ty': genv[('ty', a['ty'])]})
            else:
                out.append(a)
        return out

    def bind_generics(self, body, args):
        genv = {}
        gens = body.get('generics', [])
        if args is None:
            return genv
        for g, a in zip(gens, args):
            if g['kind'] == 'const' and 'v' in a:
                genv[g['name']] = a['v']
            elif g['kind'] == 'type' and 'ty' in a:
                genv[('ty', g['name'])] = a['ty']
        return genv

    # ------------------------------------------------------------------ places
    def read_place(self, frame, pl):
        v = frame.locals[pl['l']]
        if v is None:
            raise Unsupported('read of uninitialised local _%d in %s' % (pl['l'], frame.body['path']))
        for e in pl['p']:
            v = self.project(frame, v, e)
        return v

    def project(self, frame, v, e):
        if e == 'deref':
            if isinstance(v, ARef):
                return self.read_place(v.frame, {'l': v.local, 'p': v.proj})
            if isinstance(v, ASym):
                return ASym(('deref', v.term))
            if isinstance(v, ATop):
                t = self.p.ty(v.ty) if v.ty in self.p.types else None
                if t and t['k'] in ('ref', 'ptr'):
                    return self.top_of(t['to'], frame.genv)
                return ATop('?')
            raise Unsupported('deref of %r' % (v,))
        if isinstance(e, dict):
            if 'f' in e:
                if isinstance(v, AAgg):
                    return v.fields[e['f']]
                if isinstance(v, ASym):
                    return ASym(('field', v.term, e['f']))
                if isinstance(v, ATop):
                    return self._top_field(v, e['f'], frame)
                raise Unsupported('field of %r' % (v,))
            if 'down' in e:
                return v
            if 'idx' in e:
                i = frame.locals[e['idx']]
                return self.index_value(v, i, frame)
            if 'cidx' in e:
                if isinstance(v, AAgg) and not e['from_end']:
                    return v.fields[e['cidx']]
                if isinstance(v, AAgg):
                    return v.fields[len(v.fields) - e['cidx']]
                if isinstance(v, ASym):
                    return ASym(('index', v.term, ('c', e['cidx'], e['from_end'])))
                return ATop('?')
            if 'sub' in e:
                if isinstance(v, ASym):
                    return ASym(('subslice', v.term, e['sub'][0], e['sub'][1], e['from_end']))
                if isinstance(v, AAgg):
                    a, b = e['sub']
                    fs = v.fields[a:len(v.fields) - b] if e['from_end'] else v.fields[a:b]
                    return AAgg('[slice]', list(fs))
                return ATop('?')
        raise Unsupported('projection %r' % (e,))

    def _top_field(self, v, i, frame):
        try:
            t = self.p.ty(v.ty)
        except KeyError:
            return ATop('?')
        if t['k'] == 'tuple':
            return self.top_of(t['elems'][i], frame.genv)
        if t['k'] == 'adt' and t['variants']:
            return self.top_of(t['variants'][0]['fields'][i]['ty'], frame.genv)
        return ATop('?')

    def index_value(self, v, i, frame):
        if isinstance(v, ASym) or isinstance(i, ASym):
            vt = ('table', v.origin) if isinstance(v, AAgg) and v.origin else self.term_of(v)
            return ASym(('index', vt, self.term_of(i)))
        if isinstance(v, AAgg) and isinstance(i, AInt):
            if i.is_const():
                if 0 <= i.lo < len(v.fields):
                    return v.fields[i.lo]
                raise Panic('BoundsCheck', self.where(frame, None))
            lo, hi = max(0, i.lo), min(len(v.fields) - 1, i.hi)
            r = None
            for k in range(lo, hi + 1):
                x = v.fields[k]
                r = x if r is None else self.join_values(r, x)
            if v.origin and i.term is not None and isinstance(r, AInt):
                r = r.with_term(('index', v.origin, i.term))
            return r
        return ATop('?')

    def join_values(self, a, b):
        if isinstance(a, AInt) and isinstance(b, AInt) and a.bits == b.bits and a.signed == b.signed:
            return aval.join(a, b)
        if isinstance(a, AAgg) and isinstance(b, AAgg) and len(a.fields) == len(b.fields) and a.variant == b.variant:
            return AAgg(a.ty, [self.join_values(x, y) for x, y in zip(a.fields, b.fields)], a.variant)
        if isinstance(a, AFloat) and isinstance(b, AFloat) and a.bits == b.bits:
            if a.pat is not None and b.pat is not None:
                return AFloat(a.bits, aval.join(a.pat, b.pat))
            return AFloat(a.bits, None)
        return ATop(getattr(a, 'ty', '?'))

    def write_place(self, frame, pl, val):
        if not pl['p']:
            frame.locals[pl['l']] = val
            return
        # resolve to (container, last projection)
        cur_frame, cur_local, path = self.resolve_place(frame, pl)
        if not path:
            cur_frame.locals[cur_local] = val
            return
        v = cur_frame.locals[cur_local]
        if isinstance(v, ASym):
            # update of a part of an opaque symbolic value: keep it as a functional update term
            key = tuple(sorted((k, (x if not isinstance(x, AInt) else x.lo)) for e in path for k, x in (e.items() if isinstance(e, dict) else [('p', e)])))
            cur_frame.locals[cur_local] = ASym(('upd', v.term, key, self.term_of(val)))
            return
        if v is None or isinstance(v, ATop):
            # materialise an aggregate if the type is known
            tykey = cur_frame.body['locals'][cur_local]['ty']
            v = self.top_of(tykey, cur_frame.genv)
            cur_frame.locals[cur_local] = v
        for e in path[:-1]:
            v = self._step_container(cur_frame, v, e)
        last = path[-1]
        if isinstance(v, AAgg):
            if 'f' in last:
                v.fields[last['f']] = val
                return
            if 'idx' in last or 'cidx' in last or 'idxval' in last:
                i = last.get('cidx')
                if i is None:
                    iv = last['idxval']
                    if isinstance(iv, AInt) and iv.is_const():
                        i = iv.lo
                if i is not None and 0 <= i < len(v.fields):
                    v.fields[i] = val
                    return
                # weak update of all possible elements
                for k in range(len(v.fields)):
                    v.fields[k] = self.join_values(v.fields[k], val)
                return
            if 'down' in last:
                return
        if isinstance(v, ASym) or isinstance(v, ATop):
            return  # write into unknown memory: nothing tracked
        raise Unsupported('write_place %r into %r' % (pl, v))

    def _step_container(self, frame, v, e):
        if isinstance(e, dict) and 'f' in e and isinstance(v, AAgg):
            return v.fields[e['f']]
        if isinstance(e, dict) and 'down' in e:
            return v
        if isinstance(e, dict) and ('idxval' in e) and isinstance(v, AAgg):
            iv = e['idxval']
            if isinstance(iv, AInt) and iv.is_const():
                return v.fields[iv.lo]
        if isinstance(e, dict) and 'cidx' in e and isinstance(v, AAgg):
            return v.fields[e['cidx']]
        return ATop('?')

    def resolve_place(self, frame, pl):
        """follow derefs: returns (frame, local, projection-without-deref) ; Index locals are evaluated"""
        cur_frame, cur_local, path = frame, pl['l'], []
        for e in pl['p']:
            if e == 'deref':
                v = cur_frame.locals[cur_local]
                for pe in path:
                    v = self.project(cur_frame, v, pe if 'idxval' not in pe else {'cidx': pe['idxval'].lo, 'from_end': False} if (isinstance(pe['idxval'], AInt) and pe['idxval'].is_const()) else pe)
                if isinstance(v, ARef):
                    cur_frame, cur_local, path = v.frame, v.local, list(v.proj)
                else:
                    return _static_frame(ATop('?')), 0, [{'f': 0}]  # unknown target: writes are dropped
            elif isinstance(e, dict) and 'idx' in e:
                path.append({'idxval': cur_frame_local(frame, e['idx'])})
            else:
                path.append(e)
        return cur_frame, cur_local, path

    def make_ref(self, frame, pl, mut):
        f, l, path = self.resolve_place(frame, pl)
        # normalise idxval entries into cidx when constant
        np = []
        for e in path:
            if isinstance(e, dict) and 'idxval' in e:
                iv = e['idxval']
                if isinstance(iv, AInt) and iv.is_const():
                    np.append({'cidx': iv.lo, 'min': 0, 'from_end': False})
                else:
                    return ATop('&?')
            else:
                np.append(e)
        return ARef(f, l, np, mut)

    # ------------------------------------------------------------------ operands / rvalues
    def eval_operand(self, frame, o):
        if 'const' in o:
            return self.eval_const(o['const'], frame)
        pl = o.get('copy') or o.get('move')
        return copyval(self.read_place(frame, pl))

    def where(self, frame, span):
        return '%s @ %s' % (frame.body['path'], span)

    def eval_rvalue(self, frame, rv, span):
        k = rv['rv']
        if k == 'use':
            return self.eval_operand(frame, rv['op'])
        if k == 'bin':
            a = self.eval_operand(frame, rv['a'])
            b = self.eval_operand(frame, rv['b'])
            return self.binop(rv['op'], a, b, frame, span)
        if k == 'un':
            a = self.eval_operand(frame, rv['a'])
            return self.unop(rv['op'], a, frame)
        if k == 'cast':
            a = self.eval_operand(frame, rv['op'])
            return self.cast(rv['kind'], a, rv['ty'], frame)
        if k == 'agg':
            ops = [self.eval_operand(frame, o) for o in rv['ops']]
            kind = rv['kind']
            if kind['agg'] == 'tuple':
                return AAgg('(tuple)', ops)
            if kind['agg'] == 'array':
                return AAgg('[array]', ops)
            if kind['agg'] == 'adt':
                return AAgg(kind['path'], ops, kind['variant'])
            if kind['agg'] == 'closure':
                return AFn(kind['path'], None, ops)
            return ATop('?')
        if k == 'ref':
            return self.make_ref(frame, rv['place'], rv['mut'])
        if k == 'rawptr':
            return self.make_ref(frame, rv['place'], True)
        if k == 'discr':
            v = self.read_place(frame, rv['place'])
            if isinstance(v, AAgg):
                # discriminant value of the variant
                tykey = v.ty
                t = self.p.types.get(tykey)
                d = v.variant
                if t and t['k'] == 'adt' and t['variants']:
                    d = t['variants'][v.variant]['discr']
                else:
                    # find by path prefix (generic instantiations)
                    for kk, tt in self.p.types.items():
                        if tt and tt.get('k') == 'adt' and tt.get('path') == tykey and tt['variants']:
                            d = tt['variants'][v.variant]['discr']
                            break
                return AInt.const(64, True, d)
            if isinstance(v, ASym):
                return ASym(('discr', v.term))
            return AInt.top(64, True)
        if k == 'repeat':
            v = self.eval_operand(frame, rv['op'])
            n = self.const_len(rv['n'], frame.genv)
            if n is None or n > 4096:
                return ATop('?')
            return AAgg('[array]', [copyval(v) for _ in range(n)])
        raise Unsupported('rvalue %s' % k)

    def binop(self, op, a, b, frame, span):
        if isinstance(a, ASym) or isinstance(b, ASym):
            return ASym(('bin', op, self.term_of(a), self.term_of(b)))
        if isinstance(a, AFloat) or isinstance(b, AFloat):
            return self.float_binop(op, a, b)
        if isinstance(a, AAgg) and isinstance(b, AAgg) and not a.fields and not b.fields and op in ('Eq', 'Ne'):
            r = (a.variant == b.variant)
            return AInt.boolean(r if op == 'Eq' else not r)
        if not isinstance(a, AInt) or not isinstance(b, AInt):
            if op in ('Eq', 'Ne', 'Lt', 'Le', 'Gt', 'Ge'):
                return AInt.boolean(None)
            if op.endswith('WithOverflow'):
                return AAgg('(tuple)', [a if isinstance(a, AInt) else ATop('?'), AInt.boolean(None)])
            if isinstance(a, AInt):
                return AInt.top(a.bits, a.signed)
            return ATop('?')
        base = op.replace('WithOverflow', '').replace('Unchecked', '')
        if base in ('Add', 'Sub'):
            r, ov = aval.add(a, b, sub=(base == 'Sub'))
        elif base == 'Mul':
            r, ov = aval.mul(a, b)
        elif base == 'Div':
            return aval.div(a, b)
        elif base == 'Rem':
            return aval.rem(a, b)
        elif base in ('BitAnd', 'BitOr', 'BitXor'):
            if a.bits == 1 and b.bits == 1:
                r = self.bool_op(base, a, b)
                if not r.is_const():
                    r.prov = ('boolop', base, a, b)
                return r
            r = aval.bitop(base, a, b)
            if base == 'BitAnd' and not r.is_const():
                if b.is_const():
                    r.prov = ('and', a, b.uval())
                elif a.is_const():
                    r.prov = ('and', b, a.uval())
            return r
        elif base in ('Shl', 'Shr'):
            r = aval.shift(base, a, b)
            if base == 'Shr' and b.is_const() and not r.is_const() and not a.signed:
                r.prov = ('shr', a, b.lo % a.bits)
            return r
        elif base in ('Eq', 'Ne', 'Lt', 'Le', 'Gt', 'Ge'):
            r = aval.cmp(base, a, b)
            if not r.is_const():
                r.prov = ('cmp', base, a, b)
            return r
        elif base == 'Cmp':
            lt = aval.cmp('Lt', a, b)
            eq = aval.cmp('Eq', a, b)
            if lt.is_const() and eq.is_const():
                v = -1 if lt.lo else (0 if eq.lo else 1)
                return AAgg('core::cmp::Ordering', [], {-1: 0, 0: 1, 1: 2}[v])
            return ATop('core::cmp::Ordering')
        else:
            raise Unsupported('binop %s' % op)
        if op.endswith('WithOverflow'):
            ovb = AInt.boolean({'no': False, 'yes': True}.get(ov))
            ovb.taint = r.taint
            return AAgg('(tuple)', [r, ovb])
        return r

    def split_int(self, a, ebits, esigned, n):
        """little-endian split of an integer into n limbs, keeping symbolic bits and the negation relation where decidable"""
        def limb(x, i):
            sh = aval.shr_const(aval.cast_int(x, x.bits, False), i * ebits) if i else aval.cast_int(x, x.bits, False)
            return aval.cast_int(sh, ebits, esigned)
        if a.negof is not None and n == 2:
            V = a.negof
            vlo, vhi = limb(V, 0), limb(V, 1)
            if vlo.ko != 0:   # low limb of V certainly non-zero: -V = (~hi, -lo)
                lo, _ = aval.neg(vlo)
                return [lo, aval.bitnot(vhi)]
            if vlo.kz == mask(ebits):   # low limb certainly zero: -V = (-hi, 0)
                hi, _ = aval.neg(vhi)
                return [AInt.const(ebits, esigned, 0), hi]
        return [limb(a, i) for i in range(n)]

    def term_of(self, v):
        import symeval
        return symeval.term_of(self, v)

    def bool_op(self, op, a, b):
        t = aval.taint2(a, b)
        if op == 'BitAnd':
            if (a.is_const() and a.lo == 0) or (b.is_const() and b.lo == 0):
                r = AInt.boolean(False)
            elif a.is_const() and b.is_const():
                r = AInt.boolean(True)
            else:
                r = AInt.boolean(None)
        elif op == 'BitOr':
            if (a.is_const() and a.lo == 1) or (b.is_const() and b.lo == 1):
                r = AInt.boolean(True)
            elif a.is_const() and b.is_const():
                r = AInt.boolean(False)
            else:
                r = AInt.boolean(None)
        else:
            if a.is_const() and b.is_const():
                r = AInt.boolean(a.lo != b.lo)
            else:
                r = AInt.boolean(None)
        r.taint = t
        # keep symbolic bit if present
        if a.sym is not None or b.sym is not None:
            f = {'BitAnd': aval.bit_and, 'BitOr': aval.bit_or, 'BitXor': aval.bit_xor}[op]
            s = f(a.symbits()[0], b.symbits()[0])
            if isinstance(s, tuple):
                r.sym = [s]
        return r

    def float_binop(self, op, a, b):
        if op in ('Eq', 'Ne', 'Lt', 'Le', 'Gt', 'Ge'):
            va, vb = self._fconst(a), self._fconst(b)
            if va is not None and vb is not None:
                import operator
                f = {'Eq': operator.eq, 'Ne': operator.ne, 'Lt': operator.lt, 'Le': operator.le, 'Gt': operator.gt, 'Ge': operator.ge}[op]
                if va == 'nan' or vb == 'nan':
                    return AInt.boolean(op == 'Ne')
                return AInt.boolean(f(va, vb))
            return AInt.boolean(None)
        bits = a.bits if isinstance(a, AFloat) else b.bits
        # constant folding of IEEE arithmetic (singleton cells): Python floats are IEEE doubles, f32 results are re-rounded
        if isinstance(a, AFloat) and isinstance(b, AFloat) and a.pat is not None and b.pat is not None and a.pat.is_const() and b.pat.is_const() \
                and op in ('Add', 'Sub', 'Mul', 'Div'):
            import struct
            import math
            fa, fb = self._pyfloat(a), self._pyfloat(b)
            try:
                if op == 'Add':
                    r = fa + fb
                elif op == 'Sub':
                    r = fa - fb
                elif op == 'Mul':
                    r = fa * fb
                else:
                    if fb == 0:
                        r = math.nan if (fa == 0 or fa != fa) else math.copysign(math.inf, fa) * math.copysign(1.0, fb)
                    else:
                        r = fa / fb
            except OverflowError:
                r = math.inf
            if bits == 32:
                try:
                    pat = struct.unpack('<I', struct.pack('<f', r))[0]
                except OverflowError:
                    pat = struct.unpack('<I', struct.pack('<f', math.copysign(math.inf, r)))[0]
            else:
                pat = struct.unpack('<Q', struct.pack('<d', r))[0]
            return AFloat(bits, AInt.const(bits, False, pat))
        return AFloat(bits, None)

    def _pyfloat(self, f):
        import struct
        if f.bits == 32:
            return struct.unpack('<f', struct.pack('<I', f.pat.uval()))[0]
        return struct.unpack('<d', struct.pack('<Q', f.pat.uval()))[0]

    def _fconst(self, f):
        """exact value of a constant float as Fraction / +-inf as large sentinels / 'nan'"""
        import spec
        from fractions import Fraction
        if not isinstance(f, AFloat) or f.pat is None or not f.pat.is_const():
            return None
        fmt = spec.F32 if f.bits == 32 else spec.F64
        v = fmt.decode(f.pat.uval())
        if v == '+inf':
            return Fraction(10) ** 400
        if v == '-inf':
            return -Fraction(10) ** 400
        return v

    def unop(self, op, a, frame):
        if isinstance(a, ASym):
            return ASym(('un', op, a.term))
        if op == 'Not':
            if isinstance(a, AInt):
                if a.bits == 1:
                    if a.is_const():
                        r = AInt.boolean(not a.lo)
                    else:
                        r = AInt.boolean(None)
                        if a.sym is not None and isinstance(a.sym[0], tuple):
                            r.sym = [aval.bit_not(a.sym[0])]
                        r.prov = ('not', a)
                    r.taint = a.taint
                    return r
                return aval.bitnot(a)
        if op == 'Neg':
            if isinstance(a, AInt):
                r, ov = aval.neg(a)
                return r
            if isinstance(a, AFloat):
                if a.pat is not None:
                    sb = AInt.const(a.bits, False, 1 << (a.bits - 1))
                    return AFloat(a.bits, aval.bitop('BitXor', a.pat, sb))
                return AFloat(a.bits, None)
        if op == 'PtrMetadata':
            # length of a slice reference
            if isinstance(a, ARef):
                v = self.read_place(a.frame, {'l': a.local, 'p': a.proj})
                if isinstance(v, AAgg):
                    return AInt.const(64, False, len(v.fields), taint='lit')
            return AInt.top(64, False)
        return ATop('?')

    def cast(self, kind, a, tykey, frame):
        t = self.p.ty(tykey)
        if isinstance(a, ASym):
            return ASym(('cast', kind, a.term, tykey))
        if kind == 'IntToInt':
            if isinstance(a, AInt):
                if t['k'] == 'int':
                    r = aval.cast_int(a, t['bits'], t['signed'])
                    if not r.is_const():
                        r.prov = ('cast', a)
                    return r
                if t['k'] == 'bool':
                    return a
                if t['k'] == 'char':
                    return aval.cast_int(a, 32, False)
            if isinstance(a, AAgg) and not a.fields:
                # fieldless enum -> integer
                at = self.p.types.get(a.ty)
                if at and at['k'] == 'adt':
                    return AInt.const(t['bits'], t['signed'], at['variants'][a.variant]['discr'])
            if t['k'] == 'int':
                return AInt.top(t['bits'], t['signed'])
        if kind == 'Transmute':
            if isinstance(a, AFloat) and t['k'] == 'int' and t['bits'] == a.bits:
                if a.pat is not None:
                    return aval.cast_int(a.pat, t['bits'], t['signed'])
                return AInt.top(t['bits'], t['signed'])
            if isinstance(a, AInt) and t['k'] == 'float' and t['bits'] == a.bits:
                return AFloat(t['bits'], aval.cast_int(a, a.bits, False))
            if isinstance(a, AInt) and t['k'] == 'int' and t['bits'] == a.bits:
                return aval.cast_int(a, t['bits'], t['signed'])
            if isinstance(a, AInt) and t['k'] == 'array':
                et = self.p.ty(t['elem'])
                n = self.const_len(t['len'], frame.genv)
                if et['k'] == 'int' and n and et['bits'] * n == a.bits:
                    return AAgg(tykey, self.split_int(a, et['bits'], et['signed'], n))
            return self.top_of(tykey, frame.genv)
        if kind == 'FloatToFloat':
            if isinstance(a, AFloat) and a.pat is not None and a.pat.is_const():
                import spec
                src = spec.F32 if a.bits == 32 else spec.F64
                dst = spec.F32 if t['bits'] == 32 else spec.F64
                v = src.decode(a.pat.uval())
                if isinstance(v, str):
                    if v == 'nan':
                        return AFloat(t['bits'], None)
                    bits = (dst.emax << dst.mbits) | ((1 << (dst.bits - 1)) if v == '-inf' else 0)
                    return AFloat(t['bits'], AInt.const(t['bits'], False, bits))
                enc = dst.encode(v)
                if v == 0 and (a.pat.uval() >> (a.bits - 1)):
                    enc |= 1 << (dst.bits - 1)
                elif v < 0:
                    pass
                return AFloat(t['bits'], AInt.const(t['bits'], False, enc))
            if isinstance(a, AFloat):
                r = AFloat(t['bits'], None)
                return r
        if kind.startswith('PointerCoercion'):
            return a
        if kind in ('IntToFloat',):
            if isinstance(a, AInt) and a.is_const():
                import struct
                if t['bits'] == 32:
                    try:
                        pat = struct.unpack('<I', struct.pack('<f', float(a.lo)))[0]
                    except OverflowError:
                        pat = 0x7f800000 if a.lo > 0 else 0xff800000
                else:
                    pat = struct.unpack('<Q', struct.pack('<d', float(a.lo)))[0]
                return AFloat(t['bits'], AInt.const(t['bits'], False, pat))
            return AFloat(t['bits'], None)
        if kind in ('FloatToInt',):
            if isinstance(a, AFloat) and a.pat is not None and a.pat.is_const():
                import math
                f = self._pyfloat(a)
                tmin, tmax = AInt.trange(t['bits'], t['signed'])
                if f != f:
                    v = 0
                elif math.isinf(f):
                    v = tmax if f > 0 else tmin
                else:
                    v = max(tmin, min(tmax, int(f)))      # `as` truncates toward zero and saturates
                return AInt.const(t['bits'], t['signed'], v)
            return AInt.top(t['bits'], t['signed'])
        return self.top_of(tykey, frame.genv)

    # ------------------------------------------------------------------ execution
    def run(self, path, args, gargs=None):
        """top-level: run function `path` on abstract args -> Outcome"""
        body = self.p.bodies[path]
        genv = gargs if isinstance(gargs, dict) else self.bind_generics(body, gargs)
        self.steps = 0
        self.assumed = []
        self.trace = []
        self.live_frames = []
        # static frames referenced by argument references take part in refinement
        for a in args:
            if isinstance(a, ARef) and a.frame not in self.live_frames:
                self.live_frames.append(a.frame)
        out = None
        try:
            v = self.run_body(body, genv, args, 0)
            out = Outcome('return', v)
        except Infeasible:
            out = Outcome('infeasible')
        except Undecided as u:
            out = Outcome('undecided', None, u.where, u.why)
        except Panic as p:
            out = Outcome('panic', p.kind, p.where, p.msg)
            out.site = p.site
        except Budget as b:
            out = Outcome('budget', None, b.where)
        out.assumed = self.assumed
        out.trace = self.trace
        out.steps = self.steps
        return out

    def explore(self, path, mkargs, gargs=None, max_paths=400):
        """may-mode: enumerate every path through undecided branches (with refinement).  mkargs() must build fresh arguments.
        returns (list of Outcomes, complete?)"""
        self.fork = True
        outs = []
        stack = [[]]
        complete = True
        try:
            while stack:
                if len(outs) >= max_paths:
                    complete = False
                    break
                script = stack.pop()
                self.script = list(script)
                self.pos = 0
                self.fanout = []
                if self.call_hook is not None and hasattr(self.call_hook, 'reset_path'):
                    self.call_hook.reset_path()
                out = self.run(path, mkargs(), gargs)
                out.script = list(self.script)
                outs.append(out)
                # schedule the untried alternatives of every decision made beyond the replayed prefix
                for i in range(len(script), len(self.fanout)):
                    for alt in range(1, self.fanout[i]):
                        stack.append(self.script[:i] + [alt])
        finally:
            self.fork = False
        return outs, complete

    def run_body(self, body, genv, args, depth):
        if depth > self.max_depth:
            raise Unsupported('call depth')
        frame = Frame(body, genv, depth)
        frame.locals[0] = None
        for i, a in enumerate(args):
            frame.locals[i + 1] = a
        self.live_frames.append(frame)
        try:
            return self._run_frame(frame, body)
        finally:
            self.live_frames.pop()

    def _run_frame(self, frame, body):
        bb = 0
        blocks = body['blocks']
        visits = {}
        while True:
            self.steps += 1
            if self.steps > self.max_steps:
                raise Budget(self.where(frame, blocks[bb]['term']['span']))
            blk = blocks[bb]
            if self.record_trace:
                self.trace.append((body['path'], bb))
            for st in blk['stmts']:
                s = st['s']
                if s == 'assign':
                    v = self.eval_rvalue(frame, st['rvalue'], st['span'])
                    self.write_place(frame, st['place'], v)
                elif s == 'dead':
                    pass
                elif s == 'setdiscr':
                    v = self.read_place(frame, st['place'])
                    if isinstance(v, AAgg):
                        v.variant = st['variant']
            t = blk['term']
            k = t['t']
            if k == 'goto':
                bb = t['target']
            elif k == 'return':
                r = frame.locals[0]
                if r is None:
                    r = AAgg('()', [])
                return r
            elif k == 'switch':
                d = self.eval_operand(frame, t['discr'])
                bb = self.switch(frame, t, d)
            elif k == 'assert':
                c = self.eval_operand(frame, t['cond'])
                exp = 1 if t['expected'] else 0
                if self.assert_observer:
                    self.assert_observer(frame, t, c)
                if isinstance(c, AInt) and c.is_const():
                    if c.lo != exp:
                        raise Panic('assert:' + t['kind'], self.where(frame, t['span']), site=self.site_of(body, bb, 'assert', t['kind']))
                elif self.fork and isinstance(c, AInt):
                    k = self.choose(2)
                    if k == 0:
                        if not self.refine_value(c, ('Eq', exp)):
                            raise Infeasible()
                    else:
                        if not self.refine_value(c, ('Eq', 1 - exp)):
                            raise Infeasible()
                        raise Panic('assert:' + t['kind'], self.where(frame, t['span']), site=self.site_of(body, bb, 'assert', t['kind']))
                else:
                    self.assumed.append(('assert', t['kind'], self.where(frame, t['span'])))
                bb = t['target']
            elif k == 'call':
                bb = self.do_call(frame, t)
            elif k == 'drop':
                bb = t['target']
            elif k == 'unreachable':
                raise Panic('unreachable', self.where(frame, t['span']))
            else:
                raise Unsupported('terminator %s' % k)

    @staticmethod
    def site_of(body, bb, tkind, akind):
        """line-free identity of an assertion: (function, kind, operand shape) - literal operands by value, const generics by name,
        everything else `_`; stable under statement reordering, added code and moves between modules"""
        tt = body['blocks'][bb]['term']
        shp = []
        for o in tt.get('ops', []):
            c = o.get('const')
            if c is not None and 'scalar' in c:
                v = c['scalar']
                shp.append(str(v) if v < 4096 else hex(v))
            elif c is not None and 'param' in c:
                shp.append(c['param'])
            else:
                shp.append('_')
        return (body['path'], akind, ','.join(shp))

    @staticmethod
    def site_of_call(body, t):
        return (body['path'], 'explicit', '')

    def switch(self, frame, t, d):
        if isinstance(d, AInt):
            dm = mask(d.bits)
            possible = []
            for v, target in t['targets']:
                vv = to_signed(v, d.bits) if d.signed else v
                if d.lo <= vv <= d.hi and not ((v & dm) & d.kz) and not ((~v) & d.ko & dm):
                    possible.append((vv, target))
            if d.is_const():
                for vv, target in possible:
                    return target
                return t['otherwise']
            if not possible:
                return t['otherwise']
            # all values of d map to one target?
            if len(possible) == (d.hi - d.lo + 1):
                tg = set(x[1] for x in possible)
                if len(tg) == 1:
                    return tg.pop()
            targets = set(x[1] for x in possible) | {t['otherwise']}
            if len(targets) == 1:
                return targets.pop()
            if self.fork:
                # alternatives: each explicitly listed possible value, then "otherwise" (if any value is left for it)
                alts = [('eq', vv, target) for vv, target in possible]
                if len(possible) < (d.hi - d.lo + 1):
                    alts.append(('other', [vv for vv, _ in possible], t['otherwise']))
                while True:
                    k = self.choose(len(alts))
                    kind, val, target = alts[k]
                    ok = self.refine_value(d, ('Eq', val)) if kind == 'eq' else all(self.refine_value(d, ('Ne', v)) for v in val)
                    if ok:
                        return target
                    raise Infeasible()
        raise Undecided(self.where(frame, t['span']), 'switch on %r' % (d,))

    # ------------------------------------------------------------------ may-mode: forks by re-execution
    def choose(self, n):
        """next decision of the current path: replay the script, then take alternative 0 and remember the fan-out"""
        if self.pos < len(self.script):
            k = self.script[self.pos]
        else:
            k = 0
            self.script.append(0)
        self.fanout.append(n)
        self.pos += 1
        return k

    def substitute(self, old, new):
        """replace the value object `old` by `new` in every live frame (locals and aggregates)"""
        def sub(v):
            if v is old:
                return new
            if isinstance(v, AAgg):
                for i, f in enumerate(v.fields):
                    nf = sub(f)
                    if nf is not f:
                        v.fields[i] = nf
            return v
        for fr in self.live_frames:
            for i, v in enumerate(fr.locals):
                if v is not None:
                    nv = sub(v)
                    if nv is not v:
                        fr.locals[i] = nv

    def refine_value(self, x, fact, depth=0):
        """assume `x <op> const` (fact = (op, c)); refines x and, through its provenance, the values it was computed from.
        returns False when the assumption is infeasible."""
        if not isinstance(x, AInt) or depth > 8:
            return True
        op, c = fact
        cv = AInt.const(x.bits, x.signed, c)
        nx = aval.refine_cmp(op, x, cv)
        if nx is None:
            return False
        nx.prov = x.prov
        if nx.lo != x.lo or nx.hi != x.hi or nx.kz != x.kz or nx.ko != x.ko:
            self.substitute(x, nx)
        pv = x.prov
        if pv is None:
            return True
        k = pv[0]
        if k == 'cast':
            src = pv[1]
            if src.bits <= x.bits or (nx.lo >= 0 and nx.hi <= mask(min(src.bits, x.bits) - 1)):
                # value-preserving direction: the same fact holds for the source when it fits
                tmin, tmax = AInt.trange(src.bits, src.signed)
                if op in ('Eq', 'Ne', 'Lt', 'Le', 'Gt', 'Ge') and tmin <= c <= tmax and (src.signed == x.signed or (src.lo >= 0 and c >= 0)):
                    return self.refine_value(src, (op, c), depth + 1)
            return True
        if x.bits == 1 and op in ('Eq', 'Ne'):
            truth = (c == 1) if op == 'Eq' else (c == 0)
            if k == 'not':
                return self.refine_value(pv[1], ('Eq', 0 if truth else 1), depth + 1)
            if k == 'cmp':
                _, cop, a, b = pv
                if not truth:
                    cop = {'Eq': 'Ne', 'Ne': 'Eq', 'Lt': 'Ge', 'Ge': 'Lt', 'Le': 'Gt', 'Gt': 'Le'}[cop]
                ok = True
                if isinstance(b, AInt) and b.is_const():
                    ok = self.refine_value(a, (cop, b.lo), depth + 1)
                elif isinstance(a, AInt) and a.is_const():
                    flip = {'Eq': 'Eq', 'Ne': 'Ne', 'Lt': 'Gt', 'Gt': 'Lt', 'Le': 'Ge', 'Ge': 'Le'}[cop]
                    ok = self.refine_value(b, (flip, a.lo), depth + 1)
                elif isinstance(a, AInt) and isinstance(b, AInt):
                    na = aval.refine_cmp(cop, a, b)
                    flip = {'Eq': 'Eq', 'Ne': 'Ne', 'Lt': 'Gt', 'Gt': 'Lt', 'Le': 'Ge', 'Ge': 'Le'}[cop]
                    nb = aval.refine_cmp(flip, b, a)
                    if na is None or nb is None:
                        return False
                    na.prov, nb.prov = a.prov, b.prov
                    self.substitute(a, na)
                    self.substitute(b, nb)
                return ok
            if k == 'boolop':
                _, bop, a, b = pv
                if bop == 'BitAnd' and truth:
                    return self.refine_value(a, ('Eq', 1), depth + 1) and self.refine_value(b, ('Eq', 1), depth + 1)
                if bop == 'BitOr' and not truth:
                    return self.refine_value(a, ('Eq', 0), depth + 1) and self.refine_value(b, ('Eq', 0), depth + 1)
            return True
        if k == 'and':
            src, m = pv[1], pv[2]
            if op == 'Eq' and c == 0:
                # all masked bits are zero
                if src.ko & m:
                    return False
                try:
                    ns = AInt(src.bits, src.signed, src.lo, src.hi, src.kz | m, src.ko, term=src.term, sym=src.sym, taint=src.taint)
                except AssertionError:
                    return False
                ns.prov = src.prov
                self.substitute(src, ns)
            elif ((op == 'Ne' and c == 0) or (op == 'Eq' and c == m)) and m and (m & (m - 1)) == 0:
                if src.kz & m:
                    return False
                try:
                    ns = AInt(src.bits, src.signed, src.lo, src.hi, src.kz, src.ko | m, term=src.term, sym=src.sym, taint=src.taint)
                except AssertionError:
                    return False
                ns.prov = src.prov
                self.substitute(src, ns)
            elif op == 'Ne' and c == 0 and not src.signed:
                # some masked bit is set: value >= lowest bit of the mask
                low = m & (-m)
                return self.refine_value(src, ('Ge', low), depth + 1)
            return True
        if k == 'shr':
            src, n = pv[1], pv[2]
            if not src.signed:
                if op == 'Eq':
                    return self.refine_value(src, ('Ge', c << n), depth + 1) and self.refine_value(src, ('Le', ((c + 1) << n) - 1), depth + 1)
                if op == 'Ne' and c == 0:
                    return self.refine_value(src, ('Ge', 1 << n), depth + 1)
                if op in ('Lt',):
                    return self.refine_value(src, ('Lt', c << n), depth + 1)
                if op in ('Ge',):
                    return self.refine_value(src, ('Ge', c << n), depth + 1)
            return True
        return True

    # ------------------------------------------------------------------ calls
    def do_call(self, frame, t):
        c = t['callee']
        args = [self.eval_operand(frame, a) for a in t['args']]
        if 'indirect' in c:
            fv = self.eval_operand(frame, c['indirect'])
            if isinstance(fv, AFn) and fv.path in self.p.bodies:
                path, rargs = fv.path, fv.args
            else:
                res = ATop('?')
                self.write_place(frame, t['dest'], res)
                if t['target'] < 0:
                    raise Panic('diverge', self.where(frame, t['span']))
                return t['target']
        else:
            path = c.get('resolved') or c['orig']
            rargs = self.subst_args(c.get('rargs') if 'resolved' in c else c.get('oargs'), frame.genv)
            if 'resolved' not in c or (c.get('trait') and not c.get('rlocal') and path == c['orig']):
                # unresolved trait method in a generic body: resolve with the bound type parameters
                rp = self.resolve_trait_call(c, rargs)
                if rp:
                    path, rargs = rp
        if self.call_observer:
            self.call_observer(frame, t, path, rargs, args)
        res = self.call_function(frame, t, path, rargs, args)
        if t['target'] < 0:
            raise Panic('diverge', self.where(frame, t['span']), path)
        self.write_place(frame, t['dest'], res)
        return t['target']

    def resolve_trait_call(self, c, rargs):
        trait = c.get('trait')
        if not trait or not rargs or 'ty' not in rargs[0]:
            return None
        name = c['orig'].rsplit('::', 1)[1]
        p, im = self.p.find_impl_method(trait, rargs[0]['ty'], name)
        if p:
            return p, []
        # default method of a local trait
        if c['orig'] in self.p.bodies:
            return c['orig'], rargs
        return None

    def call_function(self, frame, t, path, rargs, args):
        # Into::into -> From::from of the target
        if path == '<T as core::convert::Into<U>>::into' and rargs and len(rargs) == 2 and 'ty' in rargs[0] and 'ty' in rargs[1]:
            src, dst = rargs[0]['ty'], rargs[1]['ty']
            for im in self.p.impl_index.get(('core::convert::From', dst), []):
                ta = im['trait']['args']
                if len(ta) >= 2 and ta[1].get('ty') == src:
                    for it in im['items']:
                        if it['name'] == 'from':
                            return self.call_function(frame, t, it['path'], [], args)
        if self.call_hook:
            r = self.call_hook(self, frame, path, rargs, args, t)
            if r is not None:
                return r
        intr = INTRINSICS.get(path)
        if intr is None:
            # strip the type from core::num::<impl u8>::wrapping_neg
            m = re.match(r'core::num::<impl ([iu](?:8|16|32|64|128|size))>::(\w+)$', path)
            if m:
                intr = NUM_METHODS.get(m.group(2))
        if intr is not None:
            return intr(self, frame, t, path, rargs, args)
        if path.startswith('core::panicking::') or path.startswith('core::panic') or path in ('core::option::unwrap_failed', 'core::result::unwrap_failed', 'core::option::expect_failed'):
            raise Panic('explicit', self.where(frame, t['span']), path, site=self.site_of_call(frame.body, t))
        body = self.p.bodies.get(path)
        if body is not None:
            genv = self.bind_generics(body, rargs)
            try:
                return self.run_body(body, genv, args, frame.depth + 1)
            except Undecided as u:
                if not self.unknown_callee_top or frame.depth < 0:
                    raise
                self.assumed.append(('callee-returns', path, u.where))
                self.havoc_refs(args)
                return self.top_of(body['locals'][0]['ty'], genv)
        # external / unknown
        self.assumed.append(('external', path, self.where(frame, t['span'])))
        self.havoc_refs(args)
        rt = frame.body['locals'][t['dest']['l']]['ty'] if not t['dest']['p'] else None
        return self.top_of(rt, frame.genv) if rt else ATop('?')

    def havoc_refs(self, args):
        for a in args:
            if isinstance(a, ARef) and a.mut:
                tykey = a.frame.body['locals'][a.local]['ty'] if a.frame.body else None
                if not a.proj and tykey:
                    a.frame.locals[a.local] = self.top_of(tykey, a.frame.genv)
                else:
                    try:
                        self.write_place(a.frame, {'l': a.local, 'p': a.proj}, ATop('?'))
                    except Unsupported:
                        pass


def cur_frame_local(frame, l):
    return frame.locals[l]


class _StaticBody(dict):
    pass


def _static_frame(val):
    body = _StaticBody(path='<static>', locals=[{'ty': getattr(val, 'ty', '?'), 'name': None}], blocks=[])
    fr = Frame(body, {}, 0)
    fr.locals[0] = val
    return fr


# ---------------------------------------------------------------------- core library transfer functions

def _ai(x):
    return isinstance(x, AInt)


def _num_wrapping_neg(I, fr, t, path, rargs, args):
    a = args[0]
    if isinstance(a, ASym):
        return ASym(('neg', a.term))
    if not _ai(a):
        return ATop('?')
    return aval.neg(a)[0]


def _num_wrapping(op):
    def f(I, fr, t, path, rargs, args):
        a, b = args
        if isinstance(a, ASym) or isinstance(b, ASym):
            return ASym(('bin', 'wrapping_' + op, I.term_of(a), I.term_of(b)))
        if not (_ai(a) and _ai(b)):
            return ATop('?')
        if op == 'add':
            return aval.add(a, b)[0]
        if op == 'sub':
            return aval.add(a, b, sub=True)[0]
        if op == 'mul':
            return aval.mul(a, b)[0]
        if op == 'shl':
            n = aval.bitop('BitAnd', b, AInt.const(b.bits, b.signed, a.bits - 1))
            return aval.shift('Shl', a, n)
        if op == 'shr':
            n = aval.bitop('BitAnd', b, AInt.const(b.bits, b.signed, a.bits - 1))
            return aval.shift('Shr', a, n)
    return f


def _num_abs(I, fr, t, path, rargs, args):
    a = args[0]
    if not _ai(a):
        return ATop('?')
    if a.lo >= 0:
        return a
    tmin, _ = AInt.trange(a.bits, a.signed)
    if a.hi < 0:
        if a.lo == tmin:
            if a.hi == tmin:
                raise Panic('assert:Overflow:abs', I.where(fr, t['span']))
            I.assumed.append(('assert', 'abs-overflow', I.where(fr, t['span'])))
        return aval.neg(a)[0]
    return AInt(a.bits, a.signed, 0, max(-a.lo, a.hi) if a.lo > tmin else None, taint=a.taint)


def _num_signum(I, fr, t, path, rargs, args):
    a = args[0]
    if not _ai(a):
        return ATop('?')
    lo = -1 if a.lo < 0 else (0 if a.lo == 0 else 1)
    hi = 1 if a.hi > 0 else (0 if a.hi == 0 else -1)
    return AInt(a.bits, a.signed, lo, hi, taint=a.taint)


def _num_is_negative(I, fr, t, path, rargs, args):
    a = args[0]
    if not _ai(a):
        return AInt.boolean(None)
    if a.hi < 0:
        return AInt.boolean(True)
    if a.lo >= 0:
        return AInt.boolean(False)
    return AInt.boolean(None)


def _num_minmax(which):
    def f(I, fr, t, path, rargs, args):
        m = re.match(r'core::num::<impl ([iu])(\d+|size)>', path)
        bits = 64 if m.group(2) == 'size' else int(m.group(2))
        signed = m.group(1) == 'i'
        tmin, tmax = AInt.trange(bits, signed)
        return AInt.const(bits, signed, tmin if which == 'min' else tmax, taint='lit')
    return f


def _num_pow(I, fr, t, path, rargs, args):
    a, b = args
    if _ai(a) and _ai(b) and a.is_const() and b.is_const():
        v = a.lo ** b.lo
        tmin, tmax = AInt.trange(a.bits, a.signed)
        if not (tmin <= v <= tmax):
            raise Panic('assert:Overflow:pow', I.where(fr, t['span']))
        return AInt.const(a.bits, a.signed, v, taint=aval.taint2(a, b))
    return AInt.top(a.bits, a.signed) if _ai(a) else ATop('?')


def _num_checked_shl(I, fr, t, path, rargs, args):
    a, n = args
    if _ai(a) and _ai(n):
        if n.hi < a.bits and n.lo >= 0:
            return AAgg('core::option::Option', [aval.shift('Shl', a, n)], 1)
        if n.lo >= a.bits:
            return AAgg('core::option::Option', [], 0)
    raise Undecided(I.where(fr, t['span']), 'checked_shl amount %r' % (n,))


def _num_trailing_zeros(I, fr, t, path, rargs, args):
    a = args[0]
    if _ai(a) and a.is_const():
        u = a.uval()
        return AInt.const(32, False, a.bits if u == 0 else (u & -u).bit_length() - 1, taint=a.taint)
    if _ai(a):
        S = a.symbits()
        z = 0
        for b in S:
            if b == 0:
                z += 1
                continue
            if b == 1:
                return AInt.const(32, False, z, taint=a.taint)
            break
        return AInt(32, False, z, a.bits)
    return AInt(32, False, 0, 128)


def _num_leading_zeros(I, fr, t, path, rargs, args):
    a = args[0]
    if _ai(a) and a.is_const():
        return AInt.const(32, False, a.bits - a.uval().bit_length(), taint=a.taint)
    if _ai(a) and a.sym is not None:
        z = 0
        for b in reversed(a.symbits()):
            if b == 0:
                z += 1
                continue
            if b == 1:
                return AInt.const(32, False, z, taint=a.taint)
            break
        return AInt(32, False, z, a.bits)
    if _ai(a) and not a.signed:
        return AInt(32, False, a.bits - a.hi.bit_length(), a.bits - a.lo.bit_length())
    return AInt(32, False, 0, a.bits if _ai(a) else 128)


def _num_saturating_neg(I, fr, t, path, rargs, args):
    a = args[0]
    if _ai(a) and a.signed:
        tmin, tmax = AInt.trange(a.bits, True)
        if a.is_const():
            return AInt.const(a.bits, True, tmax if a.lo == tmin else -a.lo, taint=a.taint)
        if a.lo > tmin:
            r, _ = aval.neg(a)
            return r
    return AInt.top(a.bits, a.signed) if _ai(a) else ATop('?')


def _num_leading_ones(I, fr, t, path, rargs, args):
    a = args[0]
    if _ai(a):
        return _num_leading_zeros(I, fr, t, path, rargs, [aval.bitnot(a)])
    return AInt(32, False, 0, 128)


def _num_trailing_ones(I, fr, t, path, rargs, args):
    a = args[0]
    if _ai(a):
        return _num_trailing_zeros(I, fr, t, path, rargs, [aval.bitnot(a)])
    return AInt(32, False, 0, 128)


NUM_METHODS = {
    'wrapping_neg': _num_wrapping_neg,
    'wrapping_add': _num_wrapping('add'),
    'wrapping_sub': _num_wrapping('sub'),
    'wrapping_mul': _num_wrapping('mul'),
    'wrapping_shl': _num_wrapping('shl'),
    'wrapping_shr': _num_wrapping('shr'),
    'abs': _num_abs,
    'signum': _num_signum,
    'is_negative': _num_is_negative,
    'min_value': _num_minmax('min'),
    'max_value': _num_minmax('max'),
    'pow': _num_pow,
    'checked_shl': _num_checked_shl,
    'leading_zeros': _num_leading_zeros,
    'trailing_zeros': _num_trailing_zeros,
    'leading_ones': _num_leading_ones,
    'saturating_neg': _num_saturating_neg,
    'trailing_ones': _num_trailing_ones,
}


def _deref_arg(I, a):
    if isinstance(a, ARef):
        return I.read_place(a.frame, {'l': a.local, 'p': a.proj})
    return a


def _scalar_of(I, v):
    """a one-field integer newtype or integer -> AInt"""
    v = _deref_arg(I, v)
    while isinstance(v, AAgg) and len(v.fields) == 1:
        v = v.fields[0]
    return v


def _cmp_method(op):
    def f(I, fr, t, path, rargs, args):
        a, b = _scalar_of(I, args[0]), _scalar_of(I, args[1])
        if isinstance(a, ARef):
            a = _scalar_of(I, a)
        if isinstance(b, ARef):
            b = _scalar_of(I, b)
        if _ai(a) and _ai(b):
            return aval.cmp(op, a, b)
        if isinstance(a, AFloat) or isinstance(b, AFloat):
            return I.float_binop(op, a, b)
        return AInt.boolean(None)
    return f


def _ord_cmp(I, fr, t, path, rargs, args):
    a, b = _scalar_of(I, args[0]), _scalar_of(I, args[1])
    if _ai(a) and _ai(b):
        lt = aval.cmp('Lt', a, b)
        eq = aval.cmp('Eq', a, b)
        if lt.is_const() and lt.lo:
            return AAgg('core::cmp::Ordering', [], 0)
        if eq.is_const() and eq.lo:
            return AAgg('core::cmp::Ordering', [], 1)
        gt = aval.cmp('Gt', a, b)
        if gt.is_const() and gt.lo:
            return AAgg('core::cmp::Ordering', [], 2)
    return ATop('core::cmp::Ordering')


def _partial_cmp(I, fr, t, path, rargs, args):
    r = _ord_cmp(I, fr, t, path, rargs, args)
    if isinstance(r, AAgg):
        return AAgg('core::option::Option', [r], 1)
    return ATop('core::option::Option<core::cmp::Ordering>')


def _mem_swap(I, fr, t, path, rargs, args):
    a, b = args
    if isinstance(a, ARef) and isinstance(b, ARef):
        va = copyval(I.read_place(a.frame, {'l': a.local, 'p': a.proj}))
        vb = copyval(I.read_place(b.frame, {'l': b.local, 'p': b.proj}))
        I.write_place(a.frame, {'l': a.local, 'p': a.proj}, vb)
        I.write_place(b.frame, {'l': b.local, 'p': b.proj}, va)
        return AAgg('()', [])
    raise Unsupported('mem::swap on unknown refs')


def _ord_minmax(which):
    def f(I, fr, t, path, rargs, args):
        a, b = args
        sa, sb = _scalar_of(I, a), _scalar_of(I, b)
        if _ai(sa) and _ai(sb):
            # core: max_by returns v2 unless v1 > v2 ; min_by returns v1 unless v1 > v2
            gt = aval.cmp('Gt', sa, sb)
            if gt.is_const():
                if which == 'max':
                    return a if gt.lo else b
                return b if gt.lo else a
        raise Undecided(I.where(fr, t['span']), 'Ord::%s on %r %r' % (which, sa, sb))
    return f


def _float_from_bits(I, fr, t, path, rargs, args):
    a = args[0]
    bits = 64 if 'f64' in path else 32
    if _ai(a):
        return AFloat(bits, aval.cast_int(a, bits, False))
    return AFloat(bits, None)


def _float_to_bits(I, fr, t, path, rargs, args):
    a = args[0]
    bits = 64 if 'f64' in path else 32
    if isinstance(a, AFloat) and a.pat is not None:
        return a.pat
    return AInt.top(bits, False)


def _float_is_finite(I, fr, t, path, rargs, args):
    a = args[0]
    if isinstance(a, AFloat) and a.pat is not None:
        fmt_e = 11 if a.bits == 64 else 8
        mb = a.bits - 1 - fmt_e
        em = ((1 << fmt_e) - 1) << mb
        e = aval.bitop('BitAnd', a.pat, AInt.const(a.bits, False, em))
        return aval.cmp('Ne', e, AInt.const(a.bits, False, em))
    return AInt.boolean(None)


def _default_int(I, fr, t, path, rargs, args):
    m = re.match(r'<([iu])(\d+) as core::default::Default>::default', path)
    return AInt.const(int(m.group(2)), m.group(1) == 'i', 0, taint='lit')


def _index_slice(I, fr, t, path, rargs, args):
    base, idx = args
    v = _deref_arg(I, base)
    if isinstance(idx, AInt):
        val = I.index_value(v, idx, fr)
        return ARef(_static_frame(val), 0, [])
    return ATop('?')


def _into_iter_array(I, fr, t, path, rargs, args):
    a = args[0]
    if isinstance(a, ARef):
        v = I.read_place(a.frame, {'l': a.local, 'p': a.proj})
        if isinstance(v, AAgg):
            return AIter('slice', a=a, lo=0, hi=len(v.fields))
    return ATop('?')


def _iter_from_ref(I, fr, t, path, rargs, args):
    return _into_iter_array(I, fr, t, path, rargs, args)


def _iter_obj(I, a):
    if isinstance(a, ARef):
        a = I.read_place(a.frame, {'l': a.local, 'p': a.proj})
    return a if isinstance(a, AIter) else None


def _iter_next(I, fr, t, path, rargs, args):
    it = _iter_obj(I, args[0])
    if it is None:
        # Range<A> stored as a plain aggregate {start, end}
        a = args[0]
        v = I.read_place(a.frame, {'l': a.local, 'p': a.proj}) if isinstance(a, ARef) else None
        if isinstance(v, AAgg) and len(v.fields) == 2 and all(isinstance(f, AInt) and f.is_const() for f in v.fields):
            lo, hi = v.fields
            if lo.lo >= hi.lo:
                return AAgg('core::option::Option', [], 0)
            v.fields[0] = AInt.const(lo.bits, lo.signed, lo.lo + 1, taint='lit')
            return AAgg('core::option::Option', [lo], 1)
        I.havoc_refs(args)
        return ATop('?')
    x = it.next()
    if x is None:
        return AAgg('core::option::Option', [], 0)
    return AAgg('core::option::Option', [x], 1)


def _identity_into_iter(I, fr, t, path, rargs, args):
    a = args[0]
    if isinstance(a, AAgg) and len(a.fields) == 2 and all(isinstance(f, AInt) and f.is_const() for f in a.fields) and 'Range' in str(a.ty):
        lo, hi = a.fields
        return AIter('range', lo=lo.lo, hi=hi.lo, meta=(lo.bits, lo.signed))
    return a


def _iter_rev(I, fr, t, path, rargs, args):
    it = _to_iter(I, args[0])
    return AIter('rev', a=it) if it is not None else ATop('?')


def _to_iter(I, a):
    if isinstance(a, AIter):
        return a
    if isinstance(a, AAgg) and len(a.fields) == 2 and all(isinstance(f, AInt) and f.is_const() for f in a.fields):
        lo, hi = a.fields
        return AIter('range', lo=lo.lo, hi=hi.lo, meta=(lo.bits, lo.signed))
    return None


def _iter_zip(I, fr, t, path, rargs, args):
    a, b = _to_iter(I, args[0]), _to_iter(I, args[1])
    if a is None or b is None:
        return ATop('?')
    return AIter('zip', a=a, b=b)


def _iter_enumerate(I, fr, t, path, rargs, args):
    it = _to_iter(I, args[0])
    return AIter('enum', a=it, lo=0) if it is not None else ATop('?')


def _range_inclusive_contains(I, fr, t, path, rargs, args):
    r = _deref_arg(I, args[0])
    x = _deref_arg(I, args[1])
    if isinstance(r, AAgg) and len(r.fields) >= 2:
        lo, hi = r.fields[0], r.fields[1]
        if isinstance(x, AFloat) or isinstance(lo, AFloat):
            a = I.float_binop('Le', lo, x)
            b = I.float_binop('Le', x, hi)
        elif isinstance(x, AInt) and isinstance(lo, AInt) and isinstance(hi, AInt):
            a = aval.cmp('Le', lo, x)
            b = aval.cmp('Le', x, hi)
        else:
            return AInt.boolean(None)
        return I.bool_op('BitAnd', a, b)
    return AInt.boolean(None)


def _range_inclusive_new(I, fr, t, path, rargs, args):
    return AAgg('core::ops::RangeInclusive', [args[0], args[1], AInt.boolean(False)])


def _option_unwrap(I, fr, t, path, rargs, args):
    a = args[0]
    if isinstance(a, AAgg) and a.ty == 'core::option::Option':
        if a.variant == 1:
            return a.fields[0]
        raise Panic('explicit', I.where(fr, t['span']), 'Option::unwrap on None', site=I.site_of_call(fr.body, t))
    return ATop('?')


INTRINSICS = {
    "core::array::<impl core::iter::IntoIterator for &'a [T; N]>::into_iter": _into_iter_array,
    "<core::slice::Iter<'a, T> as core::iter::Iterator>::next": _iter_next,
    "<core::slice::IterMut<'a, T> as core::iter::Iterator>::next": _iter_next,
    "core::slice::<impl [T]>::iter": _iter_from_ref,
    "core::slice::<impl [T]>::iter_mut": _iter_from_ref,
    "<I as core::iter::IntoIterator>::into_iter": _identity_into_iter,
    "core::iter::Iterator::rev": _iter_rev,
    "core::iter::Iterator::zip": _iter_zip,
    "core::iter::Iterator::enumerate": _iter_enumerate,
    "<core::iter::Rev<I> as core::iter::Iterator>::next": _iter_next,
    "<core::iter::Zip<A, B> as core::iter::Iterator>::next": _iter_next,
    "<core::iter::Enumerate<I> as core::iter::Iterator>::next": _iter_next,
    "core::iter::range::<impl core::iter::Iterator for core::ops::Range<A>>::next": _iter_next,
    "core::option::Option::<T>::unwrap": _option_unwrap,
    "core::ops::RangeInclusive::<Idx>::contains": _range_inclusive_contains,
    "core::ops::RangeInclusive::<Idx>::new": _range_inclusive_new,
    'core::cmp::PartialOrd::lt': _cmp_method('Lt'),
    'core::cmp::PartialOrd::le': _cmp_method('Le'),
    'core::cmp::PartialOrd::gt': _cmp_method('Gt'),
    'core::cmp::PartialOrd::ge': _cmp_method('Ge'),
    'core::cmp::PartialEq::ne': _cmp_method('Ne'),
    'core::cmp::PartialEq::eq': _cmp_method('Eq'),
    'core::cmp::impls::<impl core::cmp::PartialEq<&B> for &A>::eq': _cmp_method('Eq'),
    'core::cmp::impls::<impl core::cmp::PartialEq<&B> for &A>::ne': _cmp_method('Ne'),
    'core::mem::swap': _mem_swap,
    'core::cmp::Ord::max': _ord_minmax('max'),
    'core::cmp::Ord::min': _ord_minmax('min'),
    'core::f64::<impl f64>::from_bits': _float_from_bits,
    'core::f32::<impl f32>::from_bits': _float_from_bits,
    'core::f64::<impl f64>::to_bits': _float_to_bits,
    'core::f32::<impl f32>::to_bits': _float_to_bits,
    'core::f64::<impl f64>::is_finite': _float_is_finite,
    'core::f32::<impl f32>::is_finite': _float_is_finite,
}
for _w in ('i8', 'i16', 'i32', 'i64', 'i128'):
    INTRINSICS['core::cmp::impls::<impl core::cmp::Ord for %s>::cmp' % _w] = _ord_cmp
    INTRINSICS['core::cmp::impls::<impl core::cmp::PartialOrd for %s>::partial_cmp' % _w] = _partial_cmp
    INTRINSICS['<%s as core::default::Default>::default' % _w] = _default_int

TRUSTED_TRANSFER = sorted(list(INTRINSICS.keys()) + ['core::num::<impl T>::' + k for k in NUM_METHODS])
