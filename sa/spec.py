"""E3 - exact specification oracle (independent of the crate).

Posit decode/encode with exact rational arithmetic, the posit rounding rule
(round to nearest on the encoding bit string, ties to the even encoding, saturating at
maxpos/minpos, never to zero or NaR), IEEE float decode/encode, integer rounding.
Nothing in here reads or runs repository code.
"""
from fractions import Fraction
import math

NAR = 'NaR'


def ilog2(x: Fraction) -> int:
    """floor(log2(x)) for x > 0, exact."""
    assert x > 0
    n, d = x.numerator, x.denominator
    e = n.bit_length() - d.bit_length()
    # 2^e <= x < 2^(e+1) possibly off by one
    if e >= 0:
        if n < d << e:
            e -= 1
    else:
        if n << (-e) < d:
            e -= 1
    # verify
    assert Fraction(2) ** e <= x < Fraction(2) ** (e + 1)
    return e


class Posit:
    """n-bit posit with es exponent bits, right-aligned encoding in [0, 2^n)."""

    def __init__(self, n, es):
        self.n = n
        self.es = es
        self.mask = (1 << n) - 1
        self.nar = 1 << (n - 1)
        self.maxpos_bits = self.nar - 1
        self.minpos_bits = 1

    def decode(self, bits):
        bits &= self.mask
        if bits == 0:
            return Fraction(0)
        if bits == self.nar:
            return NAR
        sign = bits >> (self.n - 1)
        if sign:
            bits = (-bits) & self.mask
        k, e, frac, fbits = self.fields(bits)
        scale = k * (1 << self.es) + e
        v = (Fraction(1) + Fraction(frac, 1 << fbits)) * (Fraction(2) ** scale)
        return -v if sign else v

    def fields(self, bits):
        """bits: positive encoding (sign bit 0, non-zero). returns (k, e, frac, fbits)."""
        n, es = self.n, self.es
        body = bits & ((1 << (n - 1)) - 1)
        s = format(body, '0%db' % (n - 1))
        first = s[0]
        run = len(s) - len(s.lstrip(first))
        k = run - 1 if first == '1' else -run
        rest = s[run + 1:]  # after the terminator (may be empty)
        ebits = rest[:es]
        e = int(ebits, 2) << (es - len(ebits)) if ebits else 0
        fb = rest[es:]
        frac = int(fb, 2) if fb else 0
        return k, e, frac, len(fb)

    def encode(self, x):
        """posit rounding of the exact rational x (or NAR)."""
        if x == NAR:
            return self.nar
        x = Fraction(x)
        if x == 0:
            return 0
        sign = x < 0
        if sign:
            x = -x
        u = self._encode_pos(x)
        return ((-u) & self.mask) if sign else u

    def _encode_pos(self, x):
        n, es = self.n, self.es
        scale = ilog2(x)
        k = scale >> es
        e = scale - (k << es)
        if k >= n - 2:
            return self.maxpos_bits
        if k < -(n - 2):
            return self.minpos_bits
        frac = x / (Fraction(2) ** scale) - 1  # in [0,1)
        if k >= 0:
            reglen = k + 2
            reg = ((1 << (k + 1)) - 1) << 1
        else:
            reglen = -k + 1
            reg = 1
        # integer part of the encoding string: regime then exponent; then the fraction follows
        R = Fraction((reg << es) | e) + frac
        shift = (n - 1) - (reglen + es)
        scaled = R * (Fraction(2) ** shift)
        u = scaled.numerator // scaled.denominator
        rem = scaled - u
        half = Fraction(1, 2)
        if rem > half or (rem == half and (u & 1)):
            u += 1
        if u == 0:
            u = 1
        if u > self.maxpos_bits:
            u = self.maxpos_bits
        return u

    def maxpos(self):
        return self.decode(self.maxpos_bits)

    def minpos(self):
        return self.decode(1)

    def is_neg(self, bits):
        bits &= self.mask
        return bits > self.nar

    def order_key(self, bits):
        """two's complement (signed) order key"""
        bits &= self.mask
        return bits - (1 << self.n) if bits >= self.nar else bits


P8 = Posit(8, 0)
P16 = Posit(16, 1)
P32 = Posit(32, 2)


class PositX:
    """left-aligned generic posit PxE{es}<N> stored in 32 bits."""

    def __init__(self, n, es):
        self.p = Posit(n, es)
        self.n = n
        self.es = es
        self.sh = 32 - n

    def decode(self, bits32):
        return self.p.decode((bits32 & 0xFFFFFFFF) >> self.sh)

    def encode(self, x):
        return (self.p.encode(x) << self.sh) & 0xFFFFFFFF


# ---------------------------------------------------------------- floats

class FloatFmt:
    def __init__(self, bits, ebits):
        self.bits = bits
        self.ebits = ebits
        self.mbits = bits - 1 - ebits
        self.bias = (1 << (ebits - 1)) - 1
        self.emax = (1 << ebits) - 1

    def decode(self, b):
        """returns Fraction, or 'nan', '+inf', '-inf'.  (-0 -> Fraction(0))"""
        sign = (b >> (self.bits - 1)) & 1
        e = (b >> self.mbits) & self.emax
        m = b & ((1 << self.mbits) - 1)
        if e == self.emax:
            if m:
                return 'nan'
            return '-inf' if sign else '+inf'
        if e == 0:
            v = Fraction(m, 1 << self.mbits) * Fraction(2) ** (1 - self.bias)
        else:
            v = (1 + Fraction(m, 1 << self.mbits)) * Fraction(2) ** (e - self.bias)
        return -v if sign else v

    def encode(self, x):
        """IEEE round-to-nearest-even of an exact rational (or 'nan')."""
        if x == 'nan' or x == NAR:
            return (self.emax << self.mbits) | (1 << (self.mbits - 1))
        x = Fraction(x)
        if x == 0:
            return 0
        sign = 1 if x < 0 else 0
        if sign:
            x = -x
        sc = ilog2(x)
        emin = 1 - self.bias
        if sc < emin:
            sc = emin  # subnormal
        q = x / (Fraction(2) ** (sc - self.mbits))  # significand scaled to integer units
        u = q.numerator // q.denominator
        rem = q - u
        if rem > Fraction(1, 2) or (rem == Fraction(1, 2) and (u & 1)):
            u += 1
        # u in [0, 2^(mbits+1)]
        if sc == emin and u < (1 << self.mbits):
            e = 0
            m = u
        else:
            if u >= (1 << (self.mbits + 1)):
                u >>= 1
                sc += 1
            e = sc + self.bias
            m = u - (1 << self.mbits)
            if e >= self.emax:
                e = self.emax
                m = 0
        return (sign << (self.bits - 1)) | (e << self.mbits) | m


F32 = FloatFmt(32, 8)
F64 = FloatFmt(64, 11)


# ---------------------------------------------------------------- integers

def round_half_even(x: Fraction) -> int:
    fl = x.numerator // x.denominator
    rem = x - fl
    if rem > Fraction(1, 2) or (rem == Fraction(1, 2) and (fl & 1)):
        return fl + 1
    return fl


def to_int_spec(x, lo, hi):
    """nearest integer, ties to even, clamped to [lo, hi]."""
    r = round_half_even(Fraction(x))
    return max(lo, min(hi, r))


def floor_(x):
    return Fraction(math.floor(x))


def ceil_(x):
    return Fraction(math.ceil(x))


def trunc_(x):
    return Fraction(math.trunc(x))


def round_ne(x):
    return Fraction(round_half_even(Fraction(x)))


def isqrt_round(p: Posit, bits):
    """correctly rounded sqrt of a positive posit encoding, exact."""
    x = p.decode(bits)
    assert x != NAR and x > 0
    # find encoding u with posit rounding of sqrt(x): search by comparing squares.
    # sqrt is monotone; binary search over positive encodings for the largest u with decode(u)^2 <= x
    lo, hi = 1, p.maxpos_bits
    while lo < hi:
        mid = (lo + hi + 1) >> 1
        v = p.decode(mid)
        if v * v <= x:
            lo = mid
        else:
            hi = mid - 1
    v = p.decode(lo)
    if v * v == x:
        return lo
    if lo == p.maxpos_bits:
        return lo
    # sqrt(x) strictly between decode(lo) and decode(lo+1): decide by the bit-string midpoint.
    # The midpoint of the encoding string between lo and lo+1 is the n+1-bit posit (2*lo+1).
    pm = Posit(p.n + 1, p.es)
    mid = pm.decode(2 * lo + 1)
    c = mid * mid
    if c < x:
        return lo + 1
    if c > x:
        return lo
    return lo + 1 if (lo & 1) else lo


def selftest():
    # published facts
    assert P8.maxpos() == 64 and P8.minpos() == Fraction(1, 64)
    assert P16.maxpos() == 2 ** 28 and P16.minpos() == Fraction(1, 2 ** 28)
    assert P32.maxpos() == 2 ** 120 and P32.minpos() == Fraction(1, 2 ** 120)
    assert P8.decode(0x40) == 1 and P16.decode(0x4000) == 1 and P32.decode(0x40000000) == 1
    assert P8.decode(0x20) == Fraction(1, 2) and P8.decode(0x60) == 2 and P8.decode(0x50) == Fraction(3, 2)
    assert P16.decode(0x5000) == 2 and P32.decode(0x48000000) == 2
    for p in (P8, P16):
        prev = None
        for b in range(1 << p.n):
            v = p.decode(b)
            assert p.encode(v) == b, (p.n, b)
        # order premise: two's complement order == real order, NaR least
        ks = sorted(range(1 << p.n), key=p.order_key)
        assert ks[0] == p.nar
        for a, b in zip(ks[1:], ks[2:]):
            assert p.decode(a) < p.decode(b)
    # ties to even encoding and saturation
    assert P8.encode(Fraction(1000)) == 0x7F and P8.encode(Fraction(1, 1000)) == 1
    assert P8.encode(Fraction(-1000)) == 0x81
    # P16: everything above 2^27 goes to maxpos per the bit-string rule
    assert P16.encode(Fraction(2 ** 27) + 1) == 0x7FFF and P16.encode(Fraction(2 ** 27)) == 0x7FFE
    import struct
    for f in (1.0, 0.1, -3.5, 1e-40, 3.4e38, 1e-320, 5e-324):
        b64 = struct.unpack('<Q', struct.pack('<d', f))[0]
        assert F64.encode(F64.decode(b64)) == b64
        b32 = struct.unpack('<I', struct.pack('<f', f))[0]
        assert F32.encode(Fraction(f)) == b32 or math.isinf(struct.unpack('<f', struct.pack('<I', b32))[0]), f
    assert round_half_even(Fraction(5, 2)) == 2 and round_half_even(Fraction(7, 2)) == 4
    assert round_half_even(Fraction(-5, 2)) == -2
    assert isqrt_round(P8, 0x40) == 0x40 and isqrt_round(P8, 0x60) == P8.encode(Fraction(14142135623730951, 10 ** 16))
    return True


if __name__ == '__main__':
    print(selftest())
