"""Abstract values of the MIR abstract interpreter (engine E2).

AInt  : reduced product  interval x known-bits x symbolic bit-vector (optional) x term tag (optional)
AFloat: a float carried as the AInt of its bit pattern (or unknown)
AAgg  : tuples / structs / enum variants / arrays (list of fields)
ARef  : reference to a place of a frame (frame, local, projection)
ATop  : unknown value of some type
AFn   : zero-sized function item / closure

Every transfer function is sound: when precision is lost the result is widened (never guessed).
"""


def mask(bits):
    return (1 << bits) - 1


def to_signed(v, bits):
    v &= mask(bits)
    return v - (1 << bits) if v >> (bits - 1) else v


# symbolic bits: 0, 1, None (unknown) or a literal ('x', sym_id, bit_index, negated)
def bit_not(b):
    if b is None:
        return None
    if b == 0:
        return 1
    if b == 1:
        return 0
    return (b[0], b[1], b[2], not b[3])


def bit_and(a, b):
    if a == 0 or b == 0:
        return 0
    if a == 1:
        return b
    if b == 1:
        return a
    if a is None or b is None:
        return None
    if a == b:
        return a
    if a[:3] == b[:3]:
        return 0  # x & !x
    return None


def bit_or(a, b):
    if a == 1 or b == 1:
        return 1
    if a == 0:
        return b
    if b == 0:
        return a
    if a is None or b is None:
        return None
    if a == b:
        return a
    if a[:3] == b[:3]:
        return 1
    return None


def bit_xor(a, b):
    if a is None or b is None:
        return None
    if a == 0:
        return b
    if b == 0:
        return a
    if a == 1:
        return bit_not(b)
    if b == 1:
        return bit_not(a)
    if a == b:
        return 0
    if a[:3] == b[:3]:
        return 1
    return None


class AInt:
    __slots__ = ('bits', 'signed', 'lo', 'hi', 'kz', 'ko', 'term', 'sym', 'taint', 'negof', 'prov')

    def __init__(self, bits, signed, lo=None, hi=None, kz=0, ko=0, term=None, sym=None, taint=None, negof=None):
        self.bits = bits
        self.signed = signed
        tmin, tmax = self.trange(bits, signed)
        self.lo = tmin if lo is None else lo
        self.hi = tmax if hi is None else hi
        self.kz = kz
        self.ko = ko
        self.term = term
        self.sym = sym
        self.taint = taint
        self.negof = negof   # this value is exactly the two's complement negation of that AInt (same width)
        self.prov = None     # provenance for branch refinement in may-mode: ('cmp', op, a, b) | ('and', x, mask) | ('shr', x, n) | ('cast', x) | ('not', b) | ('boolop', op, a, b)
        self._reduce()

    # ------------------------------------------------------------ helpers
    @staticmethod
    def trange(bits, signed):
        if signed:
            return -(1 << (bits - 1)), (1 << (bits - 1)) - 1
        return 0, (1 << bits) - 1

    @classmethod
    def const(cls, bits, signed, v, term=None, taint=None):
        m = mask(bits)
        u = v & m
        v = to_signed(u, bits) if signed else u
        return cls(bits, signed, v, v, (~u) & m, u, term=term, taint=taint)

    @classmethod
    def top(cls, bits, signed, taint=None):
        return cls(bits, signed, taint=taint)

    @classmethod
    def boolean(cls, v=None):
        if v is None:
            return cls(1, False, 0, 1)
        return cls.const(1, False, 1 if v else 0)

    def is_const(self):
        return self.lo == self.hi

    def is_top(self):
        tmin, tmax = self.trange(self.bits, self.signed)
        return self.lo == tmin and self.hi == tmax and self.kz == 0 and self.ko == 0

    def uval(self):
        return self.lo & mask(self.bits)

    def _reduce(self):
        bits = self.bits
        m = mask(bits)
        tmin, tmax = self.trange(bits, self.signed)
        if self.lo < tmin:
            self.lo = tmin
        if self.hi > tmax:
            self.hi = tmax
        assert self.lo <= self.hi, (self.lo, self.hi, bits, self.signed)
        # symbolic bits -> known bits
        if self.sym is not None:
            for i, b in enumerate(self.sym):
                if b == 0:
                    self.kz |= 1 << i
                elif b == 1:
                    self.ko |= 1 << i
        # interval -> known bits (common prefix of lo/hi in unsigned repr when not crossing sign)
        if not self.signed or self.lo >= 0 or self.hi < 0:
            ul, uh = self.lo & m, self.hi & m
            diff = ul ^ uh
            n = diff.bit_length()
            pref = m & ~mask(n) if n < bits else 0
            self.ko |= ul & pref
            self.kz |= (~ul) & pref & m
        assert self.kz & self.ko == 0, (hex(self.kz), hex(self.ko), self.lo, self.hi)
        # known bits -> interval
        umin = self.ko
        umax = (~self.kz) & m
        if self.signed:
            sb = 1 << (bits - 1)
            if self.ko & sb:
                lo2, hi2 = to_signed(umin, bits), to_signed(umax, bits)
            elif self.kz & sb:
                lo2, hi2 = umin, umax
            else:
                lo2, hi2 = to_signed(umin | sb, bits), umax & ~sb
        else:
            lo2, hi2 = umin, umax
        if lo2 > self.lo:
            self.lo = lo2
        if hi2 < self.hi:
            self.hi = hi2
        assert self.lo <= self.hi, ('empty', self.lo, self.hi, hex(self.kz), hex(self.ko))
        if self.lo == self.hi:
            u = self.lo & m
            self.ko = u
            self.kz = (~u) & m

    def with_term(self, term):
        r = AInt(self.bits, self.signed, self.lo, self.hi, self.kz, self.ko, term, self.sym, self.taint, self.negof)
        return r

    def drop(self):
        """same numeric abstraction without term/sym"""
        return AInt(self.bits, self.signed, self.lo, self.hi, self.kz, self.ko, None, None, self.taint)

    def __repr__(self):
        if self.is_const():
            s = 'c(%s%d:%#x)' % ('i' if self.signed else 'u', self.bits, self.uval())
        elif self.is_top():
            s = 'T(%s%d)' % ('i' if self.signed else 'u', self.bits)
        else:
            s = '%s%d[%#x..%#x kz=%#x ko=%#x]' % ('i' if self.signed else 'u', self.bits, self.lo, self.hi, self.kz, self.ko)
        if self.term is not None:
            s += '{%r}' % (self.term,)
        return s

    # symbolic bit-vector view (list of bits, index 0 = LSB) derived from known bits if absent
    def symbits(self):
        if self.sym is not None:
            if not (self.kz or self.ko):
                return list(self.sym)
            # known bits learnt later (branch refinement) override the literal at that position
            return [1 if (self.ko >> i) & 1 else 0 if (self.kz >> i) & 1 else b for i, b in enumerate(self.sym)]
        out = []
        for i in range(self.bits):
            if (self.ko >> i) & 1:
                out.append(1)
            elif (self.kz >> i) & 1:
                out.append(0)
            else:
                out.append(None)
        return out

    def has_sym(self):
        return self.sym is not None and any(isinstance(b, tuple) for b in self.sym)


def join_taint(a, b):
    if a is None or b is None:
        return None
    if a == b:
        return a
    if a == 'lit':
        return b
    if b == 'lit':
        return a
    return 'mixed'


def taint2(a, b):
    return join_taint(a.taint, b.taint)


def from_sym(bits, signed, sym, term=None, taint=None):
    return AInt(bits, signed, None, None, 0, 0, term=term, sym=list(sym), taint=taint)


# ---------------------------------------------------------------- arithmetic

def _wrap_interval(lo, hi, bits, signed):
    """exact mathematical interval -> (lo, hi, overflow) in the type; overflow: 'no','maybe','yes'"""
    tmin, tmax = AInt.trange(bits, signed)
    if lo >= tmin and hi <= tmax:
        return lo, hi, 'no'
    span = 1 << bits
    klo = (lo - tmin) // span
    khi = (hi - tmin) // span
    ov = 'yes' if (lo > tmax or hi < tmin) else 'maybe'
    if klo == khi:
        return lo - klo * span, hi - klo * span, ov
    return tmin, tmax, ov


def _kb_add(a, b, bits, carry_in=0, sub=False):
    """known-bits addition via abstract ripple carry on symbolic bit-vectors; returns list of bits."""
    A = a.symbits()
    B = b.symbits()
    if sub:
        B = [bit_not(x) for x in B]
        c = 1
    else:
        c = carry_in
    out = []
    for i in range(bits):
        x, y = A[i], B[i]
        s = bit_xor(bit_xor(x, y), c)
        # carry = maj(x,y,c)
        c2 = bit_or(bit_or(bit_and(x, y), bit_and(x, c)), bit_and(y, c))
        out.append(s)
        c = c2
    return out


def add(a, b, sub=False):
    """returns (wrapped result AInt, overflow in {'no','maybe','yes'})"""
    bits, signed = a.bits, a.signed
    if b.lo == b.hi == 0 and (a.negof is not None or a.sym is not None):
        return a, 'no'
    if not sub and a.lo == a.hi == 0 and (b.negof is not None or b.sym is not None):
        return b, 'no'
    if a.lo == a.hi and b.lo == b.hi and a.sym is None and b.sym is None and a.term is None and b.term is None:
        v = a.lo - b.lo if sub else a.lo + b.lo
        tmin, tmax = AInt.trange(bits, signed)
        return AInt.const(bits, signed, v, taint=taint2(a, b)), ('no' if tmin <= v <= tmax else 'yes')
    if sub:
        lo, hi = a.lo - b.hi, a.hi - b.lo
    else:
        lo, hi = a.lo + b.lo, a.hi + b.hi
    lo, hi, ov = _wrap_interval(lo, hi, bits, signed)
    sym = _kb_add(a, b, bits, sub=sub)
    keep_sym = (a.sym is not None or b.sym is not None)
    kz = ko = 0
    for i, s in enumerate(sym):
        if s == 0:
            kz |= 1 << i
        elif s == 1:
            ko |= 1 << i
    term = None
    if not sub:
        if b.is_const() and b.lo == 0 and a.term is not None:
            term = a.term
        elif a.is_const() and a.lo == 0 and b.term is not None:
            term = b.term
    else:
        if b.is_const() and b.lo == 0 and a.term is not None:
            term = a.term
        elif a.is_const() and a.lo == 0 and b.term is not None:
            term = tneg(b.term)
    r = AInt(bits, signed, lo, hi, kz, ko, term=term, sym=sym if keep_sym else None, taint=taint2(a, b))
    return r, ov


def tneg(t):
    if t is None:
        return None
    if isinstance(t, tuple) and t and t[0] == 'neg':
        return t[1]
    return ('neg', t)


def neg(a):
    """wrapping two's complement negation; returns (result, overflow)"""
    if a.negof is not None:
        tmin, _ = AInt.trange(a.bits, a.signed)
        return a.negof, ('no' if (not a.signed or a.lo > tmin) else 'maybe')
    z = AInt.const(a.bits, a.signed, 0, taint='lit')
    r, ov = add(z, a, sub=True)
    if not a.signed:
        ov = 'no'
    if a.term is not None:
        r = r.with_term(tneg(a.term))
    if a.sym is not None and not a.is_const():
        # keep the ripple-carry result only when every bit came out as a constant or a literal (e.g. the lowest set bit is known)
        if r.sym is None or any(b is None for b in r.sym):
            r.sym = None
        r.negof = a
    return r, ov


def mul(a, b):
    bits, signed = a.bits, a.signed
    cands = [a.lo * b.lo, a.lo * b.hi, a.hi * b.lo, a.hi * b.hi]
    lo, hi, ov = _wrap_interval(min(cands), max(cands), bits, signed)
    # trailing zeros known
    kz = 0
    tza = _trailing_known_zeros(a)
    tzb = _trailing_known_zeros(b)
    tz = min(bits, tza + tzb)
    kz = mask(tz)
    term = None
    if a.is_const() and a.lo == 1:
        term = b.term
    elif b.is_const() and b.lo == 1:
        term = a.term
    sym = None
    # multiplication by a power of two is a shift
    if b.is_const() and b.lo > 0 and (b.lo & (b.lo - 1)) == 0 and a.sym is not None:
        n = b.lo.bit_length() - 1
        sym = ([0] * n + a.symbits())[:bits]
    elif a.is_const() and a.lo > 0 and (a.lo & (a.lo - 1)) == 0 and b.sym is not None:
        n = a.lo.bit_length() - 1
        sym = ([0] * n + b.symbits())[:bits]
    else:
        # a constant with a few set bits times a symbolic word: the sum of shifted copies, exact wherever the ripple carry stays determinate
        for c, v in ((a, b), (b, a)):
            if c.is_const() and c.lo > 0 and bin(c.lo).count('1') <= 3 and v.sym is not None and c.sym is None:
                S = v.symbits()
                acc = None
                for i in range(c.lo.bit_length()):
                    if (c.lo >> i) & 1:
                        part = ([0] * i + S)[:bits]
                        if acc is None:
                            acc = part
                        else:
                            out = []
                            cy = 0
                            for x, y in zip(acc, part):
                                out.append(bit_xor(bit_xor(x, y), cy))
                                cy = bit_or(bit_or(bit_and(x, y), bit_and(x, cy)), bit_and(y, cy))
                            acc = out
                if acc is not None and not any(x is None for x in acc):
                    sym = acc
                break
    return AInt(bits, signed, lo, hi, kz, 0, term=term, sym=sym, taint=taint2(a, b)), ov


def _trailing_known_zeros(a):
    n = 0
    while n < a.bits and (a.kz >> n) & 1:
        n += 1
    return n


def _corners(f, a, b):
    vals = [f(x, y) for x in (a.lo, a.hi) for y in (b.lo, b.hi)]
    return min(vals), max(vals)


def _tdiv(x, y):
    q = abs(x) // abs(y)
    return q if (x >= 0) == (y >= 0) else -q


def div(a, b):
    """truncating division; caller has checked the zero/overflow asserts. returns AInt (top if divisor may be 0)"""
    bits, signed = a.bits, a.signed
    if b.lo <= 0 <= b.hi:
        return AInt.top(bits, signed, taint=taint2(a, b))
    if b.is_const() and b.lo > 0 and (b.lo & (b.lo - 1)) == 0 and a.lo >= 0 and a.sym is not None:
        # non-negative dividend, power-of-two divisor: a logical shift right keeps the symbolic bits
        k = b.lo.bit_length() - 1
        S = a.symbits()
        sym = S[k:] + [0] * k
        r = AInt(bits, signed, a.lo >> k, a.hi >> k, sym=sym, taint=taint2(a, b))
        return r
    lo, hi = _corners(_tdiv, a, b)
    # division is monotone in each argument when the divisor sign is fixed; include 0 crossing of a
    if a.lo < 0 < a.hi:
        lo = min(lo, 0)
        hi = max(hi, 0)
    lo, hi, _ = _wrap_interval(lo, hi, bits, signed)
    return AInt(bits, signed, lo, hi, taint=taint2(a, b))


def rem(a, b):
    bits, signed = a.bits, a.signed
    if b.lo <= 0 <= b.hi:
        return AInt.top(bits, signed, taint=taint2(a, b))
    if a.is_const() and b.is_const():
        q = _tdiv(a.lo, b.lo)
        return AInt.const(bits, signed, a.lo - q * b.lo, taint=taint2(a, b))
    if b.is_const() and b.lo > 0 and (b.lo & (b.lo - 1)) == 0 and a.lo >= 0 and a.sym is not None:
        k = b.lo.bit_length() - 1
        S = a.symbits()
        sym = S[:k] + [0] * (bits - k)
        return AInt(bits, signed, 0, min(a.hi, b.lo - 1), sym=sym, taint=taint2(a, b))
    m = max(abs(b.lo), abs(b.hi)) - 1
    lo = -m if a.lo < 0 else 0
    hi = m if a.hi > 0 else 0
    return AInt(bits, signed, lo, hi, taint=taint2(a, b))


def bitop(op, a, b):
    bits, signed = a.bits, a.signed
    if a.lo == a.hi and b.lo == b.hi and a.sym is None and b.sym is None and a.term is None and b.term is None:
        x, y = a.uval(), b.uval()
        v = (x & y) if op == 'BitAnd' else (x | y) if op == 'BitOr' else (x ^ y)
        return AInt.const(bits, signed, v, taint=taint2(a, b))
    A, B = a.symbits(), b.symbits()
    f = {'BitAnd': bit_and, 'BitOr': bit_or, 'BitXor': bit_xor}[op]
    sym = [f(x, y) for x, y in zip(A, B)]
    keep = a.sym is not None or b.sym is not None
    lo = hi = None
    term = None
    if not signed:
        if op == 'BitAnd':
            lo, hi = 0, min(a.hi, b.hi)
            # masking away only bits whose value is known subtracts a constant: the interval is kept exactly
            for u, m_ in ((a, b), (b, a)):
                if m_.is_const() and u.sym is None:
                    cleared = ~m_.uval() & mask(bits)
                    ukz = u.kz | (mask(bits) & ~mask(u.hi.bit_length()))
                    if cleared & ~(ukz | u.ko) == 0:
                        c = u.ko & cleared
                        lo, hi = u.lo - c, u.hi - c
                        break
        elif op == 'BitOr':
            lo = max(a.lo, b.lo)
            hi = mask(max(a.hi.bit_length(), b.hi.bit_length()))
        else:
            lo, hi = 0, mask(max(a.hi.bit_length(), b.hi.bit_length()))
    if op in ('BitOr', 'BitXor'):
        if a.is_const() and a.uval() == 0:
            term = b.term
        elif b.is_const() and b.uval() == 0:
            term = a.term
    elif op == 'BitAnd':
        if a.is_const() and a.uval() == mask(bits):
            term = b.term
        elif b.is_const() and b.uval() == mask(bits):
            term = a.term
    kz = ko = 0
    for i, s in enumerate(sym):
        if s == 0:
            kz |= 1 << i
        elif s == 1:
            ko |= 1 << i
    return AInt(bits, signed, lo, hi, kz, ko, term=term, sym=sym if keep else None, taint=taint2(a, b))


def tnot(t):
    if t is None:
        return None
    if isinstance(t, tuple) and t and t[0] == 'not':
        return t[1]
    return ('not', t)


def bitnot(a):
    sym = [bit_not(x) for x in a.symbits()]
    kz, ko = a.ko, a.kz
    if a.signed:
        lo, hi = -a.hi - 1, -a.lo - 1
    else:
        m = mask(a.bits)
        lo, hi = m - a.hi, m - a.lo
    return AInt(a.bits, a.signed, lo, hi, kz, ko, term=tnot(a.term), sym=sym if a.sym is not None else None, taint=a.taint)


def shl_const(a, n):
    """a << n for a concrete 0 <= n < bits (wrapping: bits shifted out are lost)"""
    bits, signed = a.bits, a.signed
    m = mask(bits)
    sym = ([0] * n + a.symbits())[:bits]
    kz = ((a.kz << n) | mask(n)) & m
    ko = (a.ko << n) & m
    lo, hi, ov = _wrap_interval(a.lo << n, a.hi << n, bits, signed)
    term = a.term if n == 0 else None
    return AInt(bits, signed, lo, hi, kz, ko, term=term, sym=sym if a.sym is not None else None, taint=a.taint)


def shr_const(a, n):
    bits, signed = a.bits, a.signed
    S = a.symbits()
    fill = S[bits - 1] if signed else 0
    sym = (S[n:] + [fill] * n)[:bits]
    lo, hi = a.lo >> n, a.hi >> n
    term = a.term if n == 0 else None
    kz = ko = 0
    for i, s in enumerate(sym):
        if s == 0:
            kz |= 1 << i
        elif s == 1:
            ko |= 1 << i
    return AInt(bits, signed, lo, hi, kz, ko, term=term, sym=sym if a.sym is not None else None, taint=a.taint)


def join(a, b):
    """least upper bound of two AInt of the same type"""
    assert a.bits == b.bits and a.signed == b.signed
    kz = a.kz & b.kz
    ko = a.ko & b.ko
    term = a.term if a.term == b.term else None
    sym = None
    if a.sym is not None and b.sym is not None:
        sym = [x if x == y else None for x, y in zip(a.sym, b.sym)]
    return AInt(a.bits, a.signed, min(a.lo, b.lo), max(a.hi, b.hi), kz, ko, term=term, sym=sym, taint=taint2(a, b))


def shift(op, a, n):
    """shift by an abstract amount n (AInt). The overflow assert has been evaluated by the caller;
    here amounts are taken modulo bits as the wrapping semantics of MIR Shl/Shr prescribe."""
    bits = a.bits
    f = shl_const if op.startswith('Shl') else shr_const
    if n.is_const():
        r = f(a, n.lo % bits)
        r.taint = taint2(a, n)
        return r
    if 0 <= n.lo and n.hi < bits and n.hi - n.lo <= 64:
        r = None
        for k in range(n.lo, n.hi + 1):
            # skip amounts excluded by known bits
            if (k & n.kz) or ((~k) & n.ko & mask(n.bits)):
                continue
            x = f(a, k)
            r = x if r is None else join(r, x)
        if r is not None:
            r.taint = taint2(a, n)
            r.term = None
            return r
    return AInt.top(bits, a.signed, taint=taint2(a, n))


def cmp(op, a, b):
    """comparison -> AInt bool"""
    t = taint2(a, b)
    res = None
    if op in ('Eq', 'Ne'):
        eq = None
        if a.is_const() and b.is_const():
            eq = a.lo == b.lo
        elif a.hi < b.lo or b.hi < a.lo:
            eq = False
        elif (a.ko & b.kz) or (a.kz & b.ko):
            eq = False
        elif a.term is not None and a.term == b.term:
            eq = True
        elif a.sym is not None or b.sym is not None:
            A, B = a.symbits(), b.symbits()
            if all(x is not None and x == y for x, y in zip(A, B)):
                eq = True
            elif any(isinstance(x, tuple) and isinstance(y, tuple) and x[:3] == y[:3] and x[3] != y[3] for x, y in zip(A, B)):
                eq = False
        if eq is not None:
            res = eq if op == 'Eq' else not eq
    elif op == 'Lt':
        if a.hi < b.lo:
            res = True
        elif a.lo >= b.hi:
            res = False
    elif op == 'Le':
        if a.hi <= b.lo:
            res = True
        elif a.lo > b.hi:
            res = False
    elif op == 'Gt':
        if a.lo > b.hi:
            res = True
        elif a.hi <= b.lo:
            res = False
    elif op == 'Ge':
        if a.lo >= b.hi:
            res = True
        elif a.hi < b.lo:
            res = False
    else:
        raise ValueError(op)
    r = AInt.boolean(res)
    if res is None and op in ('Eq', 'Ne'):
        # (word with a single undetermined bit) ==/!= 0: the boolean is that bit (or its complement)
        for u, z in ((a, b), (b, a)):
            if z.is_const() and z.lo == 0 and u.sym is not None:
                S = u.symbits()
                free = [x for x in S if x != 0]
                if len(free) == 1 and isinstance(free[0], tuple):
                    x = free[0]
                    r = AInt(1, False, 0, 1, sym=[x if op == 'Ne' else (x[0], x[1], x[2], not x[3])])
                break
    r.taint = t
    return r


def cast_int(a, tbits, tsigned):
    """IntToInt cast (as-cast): truncation or zero/sign extension by the *source* signedness."""
    sbits = a.bits
    tm = mask(tbits)
    S = a.symbits()
    if tbits <= sbits:
        sym = S[:tbits]
    else:
        fill = S[sbits - 1] if a.signed else 0
        sym = S + [fill] * (tbits - sbits)
    lo, hi, ov = _wrap_interval(a.lo, a.hi, tbits, tsigned)
    kz = ko = 0
    for i, s in enumerate(sym):
        if s == 0:
            kz |= 1 << i
        elif s == 1:
            ko |= 1 << i
    term = None
    if a.term is not None:
        if tbits == sbits:
            term = a.term
        elif tbits > sbits:
            term = ('sext' if a.signed else 'zext', a.term, sbits, tbits)
        else:
            t = a.term
            if isinstance(t, tuple) and t[0] in ('sext', 'zext') and t[2] == tbits:
                term = t[1]
            elif isinstance(t, tuple) and t[0] in ('sext', 'zext') and t[2] < tbits:
                term = (t[0], t[1], t[2], tbits)
            else:
                term = ('trunc', t, tbits)
    r = AInt(tbits, tsigned, lo, hi, kz, ko, term=term, sym=sym if a.sym is not None else None, taint=a.taint)
    if a.negof is not None and tbits == sbits:
        r.negof = cast_int(a.negof, tbits, tsigned)
    elif a.negof is not None and tbits > sbits and a.signed:
        # sign extension of -y is -(zero extension of y) whenever 0 <= y <= 2^(sbits-1) as a bit pattern
        Y = a.negof.symbits()
        if Y[sbits - 1] == 0 or (Y[sbits - 1] == 1 and all(b == 0 for b in Y[:sbits - 1])):
            yu = AInt(sbits, False, None, None, 0, 0, sym=list(Y)) if a.negof.sym is not None else AInt.const(sbits, False, a.negof.uval()) if a.negof.is_const() else None
            if yu is not None:
                z = cast_int(cast_int(yu, tbits, False), tbits, tsigned)
                r2, _ = neg(z)
                if r2.negof is not None or r2.is_const():
                    r2.taint = a.taint
                    return r2
    return r


def refine_cmp(op, a, b):
    """refine a under the assumption (a op b) holds; returns refined a or None if infeasible."""
    lo, hi = a.lo, a.hi
    kz, ko = a.kz, a.ko
    if op == 'Eq':
        lo, hi = max(lo, b.lo), min(hi, b.hi)
        kz |= b.kz
        ko |= b.ko
    elif op == 'Ne':
        if b.is_const():
            if lo == b.lo:
                lo += 1
            if hi == b.lo:
                hi -= 1
    elif op == 'Lt':
        hi = min(hi, b.hi - 1)
    elif op == 'Le':
        hi = min(hi, b.hi)
    elif op == 'Gt':
        lo = max(lo, b.lo + 1)
    elif op == 'Ge':
        lo = max(lo, b.lo)
    if lo > hi or (kz & ko):
        return None
    try:
        return AInt(a.bits, a.signed, lo, hi, kz, ko, term=a.term, sym=a.sym, taint=a.taint)
    except AssertionError:
        return None


# ---------------------------------------------------------------- other values

class AFloat:
    __slots__ = ('bits', 'pat')

    def __init__(self, bits, pat=None):
        self.bits = bits
        self.pat = pat  # AInt (unsigned, bits) of the bit pattern, or None if unknown

    def __repr__(self):
        return 'f%d(%r)' % (self.bits, self.pat)


class AAgg:
    __slots__ = ('ty', 'variant', 'fields', 'origin')

    def __init__(self, ty, fields, variant=0, origin=None):
        self.ty = ty
        self.fields = fields
        self.variant = variant
        self.origin = origin   # path of the const item this literal table came from (R4)

    def __repr__(self):
        return 'Agg<%s#%s>%r' % (self.ty, self.variant, self.fields)


class ARef:
    __slots__ = ('frame', 'local', 'proj', 'mut')

    def __init__(self, frame, local, proj, mut=False):
        self.frame = frame
        self.local = local
        self.proj = proj
        self.mut = mut

    def __repr__(self):
        return '&%s_%d%r' % ('mut ' if self.mut else '', self.local, self.proj)


class ATop:
    __slots__ = ('ty', 'why')

    def __init__(self, ty, why=None):
        self.ty = ty
        self.why = why

    def __repr__(self):
        return 'Top<%s>' % (self.ty,)


class AFn:
    __slots__ = ('path', 'args', 'captures')

    def __init__(self, path, args=None, captures=None):
        self.path = path
        self.args = args
        self.captures = captures

    def __repr__(self):
        return 'fn<%s>' % self.path


class ASym:
    """opaque symbolic value of any type (term mode)"""
    __slots__ = ('term', 'ty')

    def __init__(self, term, ty=None):
        self.term = term
        self.ty = ty

    def __repr__(self):
        return 'Sym(%r)' % (self.term,)


def selftest():
    import random
    rnd = random.Random(1)
    n = 0
    for _ in range(1500):
        bits = rnd.choice([8, 16])
        signed = rnd.choice([True, False])
        tmin, tmax = AInt.trange(bits, signed)

        def rand_abs():
            k = rnd.random()
            if k < 0.3:
                v = rnd.randint(tmin, tmax)
                return AInt.const(bits, signed, v), [v]
            lo = rnd.randint(tmin, tmax)
            hi = min(tmax, lo + rnd.choice([0, 1, 3, 17, 100, 1 << (bits - 1)]))
            kz = 0
            ko = 0
            if rnd.random() < 0.3:
                # known low zero bits
                kz = mask(rnd.randint(0, 3))
            try:
                a = AInt(bits, signed, lo, hi, kz, ko)
            except AssertionError:
                return rand_abs()
            vals = [v for v in (rnd.randint(a.lo, a.hi) for _ in range(6)) if (v & mask(bits)) & a.kz == 0 and (~(v & mask(bits))) & a.ko == 0]
            vals += [x for x in (a.lo, a.hi) if (x & mask(bits)) & a.kz == 0 and (~(x & mask(bits))) & a.ko == 0]
            if not vals:
                return rand_abs()
            return a, vals

        a, av = rand_abs()
        b, bv = rand_abs()

        def wrap(v):
            v &= mask(bits)
            return to_signed(v, bits) if signed else v

        def contains(r, v):
            u = v & mask(r.bits)
            vv = to_signed(u, r.bits) if r.signed else u
            assert r.lo <= vv <= r.hi, (r, vv)
            assert u & r.kz == 0 and (~u) & r.ko & mask(r.bits) == 0, (r, hex(u))

        for x in av:
            for y in bv:
                r, ov = add(a, b)
                contains(r, wrap(x + y))
                if ov == 'no':
                    assert tmin <= x + y <= tmax
                if ov == 'yes':
                    assert not (tmin <= x + y <= tmax)
                r, ov = add(a, b, sub=True)
                contains(r, wrap(x - y))
                if ov == 'no':
                    assert tmin <= x - y <= tmax
                r, ov = mul(a, b)
                contains(r, wrap(x * y))
                if ov == 'no':
                    assert tmin <= x * y <= tmax
                for op, f in (('BitAnd', lambda p, q: p & q), ('BitOr', lambda p, q: p | q), ('BitXor', lambda p, q: p ^ q)):
                    contains(bitop(op, a, b), wrap(f(x & mask(bits), y & mask(bits))))
                if y != 0 and not (b.lo <= 0 <= b.hi):
                    contains(div(a, b), wrap(_tdiv(x, y)))
                    contains(rem(a, b), wrap(x - _tdiv(x, y) * y))
                for op, f in (('Eq', lambda p, q: p == q), ('Ne', lambda p, q: p != q), ('Lt', lambda p, q: p < q),
                              ('Le', lambda p, q: p <= q), ('Gt', lambda p, q: p > q), ('Ge', lambda p, q: p >= q)):
                    c = cmp(op, a, b)
                    contains(c, 1 if f(x, y) else 0)
                n += 1
            contains(bitnot(a), wrap(~x))
            contains(neg(a)[0], wrap(-x))
            for k in range(bits):
                contains(shl_const(a, k), wrap(x << k))
                contains(shr_const(a, k), wrap(x >> k))
            for tb, ts in ((8, True), (8, False), (16, True), (16, False), (32, False), (32, True)):
                c = cast_int(a, tb, ts)
                u = x & mask(tb) if tb <= bits else (x & mask(tb))
                contains(c, to_signed(u, tb) if ts else u)
    return n


if __name__ == '__main__':
    print('transfer function checks:', selftest())
