"""Run-time resolution of trait calls the compiler could not resolve at the definition site (generic default bodies such as
`Polynom::polyN`): when the interpreter meets `Mul::mul`, `One::one`, `Quire::init`, `AddAssign::add_assign`, `Into::into` or a
slice index with *concrete* arguments, the impl is looked up by the run-time type of the arguments in the impl table and its body is
interpreted.  Used only for constant propagation on singleton cells (C15 probes)."""
from aval import AInt, AAgg, ARef, ATop
from interp import _static_frame
import quire_common as QC

OPS = {'core::ops::Mul::mul': ('core::ops::Mul', 'mul'), 'core::ops::Add::add': ('core::ops::Add', 'add'),
       'core::ops::Sub::sub': ('core::ops::Sub', 'sub'), 'core::ops::Div::div': ('core::ops::Div', 'div'),
       'core::ops::Neg::neg': ('core::ops::Neg', 'neg')}


class DynHook:
    def __init__(self, prog, pty):
        self.prog = prog
        self.pty = pty
        self.q = {q.pty.tykey: q for q in QC.QTYS}.get(pty.tykey)
        self.problems = []

    def _run(self, I, frame, path, args):
        body = self.prog.bodies.get(path)
        if body is None:
            return None
        return I.run_body(body, {}, args, frame.depth + 1)

    def __call__(self, I, frame, path, rargs, args, t):
        prog, pty = self.prog, self.pty
        if path.endswith('One::one') and not args:
            return AAgg(pty.tykey, [AInt.const(pty.bits, True, pty.one)])
        if path.endswith('Zero::zero') and not args:
            return AAgg(pty.tykey, [AInt.const(pty.bits, True, 0)])
        if path in OPS and args and isinstance(args[0], AAgg) and args[0].ty == pty.tykey:
            tr, nm = OPS[path]
            p_, _ = prog.find_impl_method(tr, pty.tykey, nm)
            if p_:
                return self._run(I, frame, p_, args)
        if path == 'Quire::init' and self.q is not None:
            return self.q.state(self.q.zero_cell())
        if path in ('core::ops::AddAssign::add_assign', 'core::ops::SubAssign::sub_assign') and self.q is not None and len(args) == 2 and isinstance(args[0], ARef):
            rhs = args[1]
            P = pty.tykey
            if isinstance(rhs, AAgg) and rhs.ty == P:
                rty = P
            elif isinstance(rhs, AAgg) and len(rhs.fields) == 2 and all(isinstance(f, AAgg) and f.ty == P for f in rhs.fields):
                rty = '(%s, %s)' % (P, P)
            else:
                rty = None
            if rty:
                tr = path.rsplit('::', 1)[0]
                p_ = QC.find_assign_impl(prog, self.q, tr, rty)
                if p_:
                    self._run(I, frame, p_, args)
                    return AAgg('()', [])
        if path.endswith('Into<U>>::into') and self.q is not None and args and isinstance(args[0], AAgg) and args[0].ty == self.q.tykey:
            tp = prog.inherent(self.q.tykey, 'to_posit')
            if tp:
                return self._run(I, frame, tp, [ARef(_static_frame(args[0]), 0, [])])
        if path.startswith('core::slice::index') or path.startswith('core::array::<impl core::ops::Index'):
            base, rng = args
            v = I.read_place(base.frame, {'l': base.local, 'p': base.proj}) if isinstance(base, ARef) else None
            if isinstance(v, AAgg) and isinstance(rng, AAgg):
                n = len(v.fields)
                ty = str(rng.ty)

                def ci(x):
                    return x.lo if isinstance(x, AInt) and x.is_const() else None
                lo, hi = 0, n
                if 'RangeFrom' in ty:
                    lo = ci(rng.fields[0])
                elif 'RangeTo' in ty:
                    hi = ci(rng.fields[0])
                elif 'Range' in ty:
                    lo, hi = ci(rng.fields[0]), ci(rng.fields[1])
                if lo is None or hi is None or not (0 <= lo <= hi <= n):
                    return ATop('?')
                return ARef(_static_frame(AAgg('[slice]', list(v.fields[lo:hi]))), 0, [])
        return None
