"""C05 - fused multiply-add family: NaR / zero-product cells (R2), operand wiring, selector dependence (R5)."""
import spec as S
from props.common import *
from slicer import Slice

LEVEL = 'other'

FUNCS = {
    # name: real function of (self, arg1, arg2)
    'mul_add': lambda a, b, c: a * b + c,
    'mul_sub': lambda a, b, c: a * b - c,
    'sub_product': lambda c, a, b: c - a * b,
}


def tspec(pty, f):
    p = pty.posit

    def spec(xs):
        vs = [p.decode(x) for x in xs]
        if any(v == S.NAR for v in vs):
            return p.nar
        return p.encode(f(*vs))
    return spec


def is_selector_type(prog, tykey):
    """a field-less enum with at least three variants (the operation selector), whatever its name"""
    t = prog.types.get(tykey) or {}
    return t.get('k') == 'adt' and t.get('adt') == 'enum' and t.get('local') and len(t.get('variants', [])) >= 3 and all(not v['fields'] for v in t['variants'])


def find_kernel(prog, path):
    """the local callee of `path` that takes an operation-selector argument"""
    body = prog.bodies[path]
    for blk in body['blocks']:
        t = blk['term']
        if t['t'] == 'call':
            cp = t['callee'].get('resolved')
            cb = prog.bodies.get(cp)
            if cb and any(is_selector_type(prog, cb['locals'][i + 1]['ty']) for i in range(cb['arg_count'])):
                return cp
    return None


def selector_rule(ctx, prog, kernel, label):
    """R5: every return site whose value data-depends on >= 2 operand arguments must depend on the selector."""
    body = prog.bodies[kernel]
    sl = Slice(body)
    n = body['arg_count']
    op = [i for i in range(1, n + 1) if is_selector_type(prog, body['locals'][i]['ty'])]
    operands = [i for i in range(1, n + 1) if i not in op]
    sites = 0
    for site in sl.return_sites():
        data = sl.site_deps(site, include_control=False)
        used_ops = [i for i in operands if i in data]
        if len(used_ops) < 3:
            continue
        sites += 1
        alld = sl.site_deps(site, include_control=True)
        if not (set(op) & alld):
            ctx.finding('R5-selector', label, 'return-site-depending-on-%d-operands' % len(used_ops),
                        'the value returned by %s on the general path depends on all operands %s but neither its data nor its control '
                        'dependence slice contains the operation selector: mul_add, mul_sub and sub_product return identical bits there'
                        % (kernel, [body['locals'][i]['name'] for i in used_ops]),
                        {'kernel': kernel, 'site_block': site[0], 'span': body['blocks'][site[0]]['term']['span']})
        else:
            ctx.sample({'rule': 'R5-selector', 'kernel': label, 'site_block': site[0], 'depends_on_selector': True})
    return sites


def run(ctx):
    prog = ctx.prog('default')
    ctx.rules.append('R2 guarded-cell results on operand-triple cells; R5 necessary dependence of the general-path result on the selector')
    tot = 0
    ksites = 0
    kernels = set()
    pjobs = []
    for pty in PTYS:
        cells = cuts_to_cells(pty.bits, [0, pty.nar, pty.one])
        # merge: keep {0},{NaR},{ONE},{-ONE}, one positive interval, one negative interval, maxpos
        keep = []
        for lo, hi in cells:
            if lo == hi and lo not in (0, pty.nar, pty.one, (-pty.one) & mask(pty.bits), pty.maxpos, 1):
                continue
            keep.append((lo, hi))
        for name, f in FUNCS.items():
            path = anchor(ctx, prog, pty, name)
            if not path:
                continue
            st = run_cells(ctx, prog, 'GCR', '%s::%s' % (pty.name, name), path,
                           lambda cell, pty=pty: [posit_arg(pty, c[0], c[1], i) for i, c in enumerate(cell)],
                           [keep, keep, keep], tspec(pty, f), pty.bits, max_product=20000)
            tot += decided(st)
            import probes
            from props.common import run_points
            tp_ = probes.ternary_probes(pty, 2 if ctx.tier == 'thorough' else 1)
            pjobs.append(dict(rule='GCR', label='%s::%s' % (pty.name, name), path=path, pty=pty, points=tp_, spec=tspec(pty, f)))
            # fused rounding matrix: kept bits from the addend, round bit and a deep sticky bit from the exact product, with / without carry
            from props.common import run_points
            pts = probes.fma_probes(pty, 2 if ctx.tier == 'thorough' else 1)
            sp = probes.fma_sparse_probes(pty, per_m=6 if ctx.tier == 'quick' else 24)
            pts = pts + sp + [((-a) & mask(pty.bits), b, (-c) & mask(pty.bits)) for a, b, c in sp]
            if name == 'mul_sub':
                pts = [(a, b, (-c) & mask(pty.bits)) for a, b, c in pts[::2]]
            elif name == 'sub_product':
                pts = [(c, (-a) & mask(pty.bits), b) for a, b, c in pts[1::2]]
            pjobs.append(dict(rule='GCR', label='%s::%s' % (pty.name, name), path=path, pty=pty, points=pts, spec=tspec(pty, f)))
            k = find_kernel(prog, path)
            if k is None:
                ctx.notes.append('%s::%s: no callee with an operation-selector parameter (the three operations do not share a kernel): R5 has no instance there' % (pty.name, name))
            elif k not in kernels:
                kernels.add(k)
                ksites += selector_rule(ctx, prog, k, pty.name + '::mul_add-kernel')
    # P8E0: every operand pair (a, b) with the addends that make the fused result hard - the one cancelling the rounded product (the exact residual
    # must come out), and in the thorough tier also +-minpos (a lone sticky bit of either sign), the rounded product itself, +-ONE and +-maxpos -
    # singly (enumeration of singleton cells)
    p8 = P8.posit
    m8 = mask(8)
    trip = []
    for a in range(256):
        va = p8.decode(a)
        for b in range(256):
            vb = p8.decode(b)
            r = p8.nar if (va == S.NAR or vb == S.NAR) else p8.encode(va * vb)
            cs = [(-r) & m8]
            if ctx.tier == 'thorough':
                cs += [r, 1, 0xff, P8.one, (-P8.one) & m8, P8.maxpos, (-P8.maxpos) & m8]
            trip += [(a, b, c) for c in dict.fromkeys(cs)]
    n8 = 0
    for name, f in FUNCS.items():
        path = prog.inherent(P8.tykey, name)
        if not path:
            continue
        if name == 'mul_add':
            pts = trip
        elif name == 'mul_sub':
            pts = [(a, b, (-c) & m8) for a, b, c in trip]
        else:
            pts = [(c, (-a) & m8, b) for a, b, c in trip]
        pjobs.append(dict(rule='GCR', label='P8E0::%s' % name, path=path, pty=P8, points=pts, spec=tspec(P8, f)))
        n8 += len(pts)
    ctx.count('p8_enumerated_triples', n8)
    ctx.rules.append('singleton cells: every P8E0 operand pair (a, b) with the addend cancelling the rounded product (thorough: eight addends), for the three spellings')
    from props.common import run_points_parallel
    run_points_parallel(ctx, prog, pjobs, chunk=1024)
    # R10 with one symbolic operand: one factor the constant 2^t, the other *every* posit of a regime cell, the addend a constant placed so that the
    # exact result is a routing of the symbolic operand's bits; then the rounding cases.  Proves alignment of product and addend, sticky collection
    # (incl. product bits deeper than the target precision when t != 0), rounding, carry-out and the borrow correction on those families.
    import rules_rounding
    ctx.trusted += [t_ for t_ in rules_rounding.TRUSTED if t_ not in ctx.trusted]
    ctx.rules.append('R10 (one symbolic operand): x*y+z family with one factor 2^t and a constant addend; result vector == correctly rounded value')
    tasks = []
    for pty in PTYS:
        maxs = (pty.bits - 2) << pty.es
        allsc = list(range(-maxs, maxs))
        if pty.bits == 32:
            allsc = [s_ for s_ in allsc if s_ % 4 in (0, 3) and (ctx.tier == 'thorough' or (s_ >> 2) % 3 == 0)]
        ts = (0, -3) if ctx.tier == 'quick' else (0, -3, 5)
        for fname in FUNCS:
            path = prog.inherent(pty.tykey, fname)
            if not path:
                continue
            chunk = 8 if pty.bits > 8 else len(allsc)
            for v in range(len(rules_rounding.FMA_VARIANTS[fname])):
                for t_ in ts:
                    for i in range(0, len(allsc), chunk):
                        tasks.append((rules_rounding.check_fma, ('R10', '%s::%s' % (pty.name, fname), path, pty, fname, v, False), dict(scales=allsc[i:i + chunk], t=t_)))
    # the same with a two-bit constant factor 2^t (1 + 2^-d): the product then has set bits at the top and d places further down
    for pty in PTYS:
        if pty.bits == 32 and ctx.tier == 'quick':
            continue
        maxs = (pty.bits - 2) << pty.es
        fb0 = pty.bits - 3 - pty.es
        allsc = list(range(-maxs, maxs))[::(1 if pty.bits == 8 else 3 if pty.bits == 16 else 16)]
        for fname in FUNCS:
            path = prog.inherent(pty.tykey, fname)
            if not path:
                continue
            chunk = 6 if pty.bits > 8 else len(allsc)
            for v in range(len(rules_rounding.FMA_VARIANTS[fname])):
                for fd_ in (fb0, max(2, fb0 // 2)):
                    for i in range(0, len(allsc), chunk):
                        tasks.append((rules_rounding.check_fma, ('R10', '%s::%s' % (pty.name, fname), path, pty, fname, v, False), dict(scales=allsc[i:i + chunk], t=0, fd=fd_)))
    st = rules_rounding.run_parallel(ctx, prog, tasks)
    ctx.count('one_symbolic_operand_cells', st['cells'])
    ctx.count('one_symbolic_operand_cells_proved', st['proved'])
    ctx.require('C05 decided cells', tot, 1000)
    if kernels:
        ctx.require('C05 selector rule sites', ksites, len(kernels))
    ctx.undecided['general_path'] = 'rounding, cancellation and the borrow correction on the general path'
    return LEVEL, ('NaR propagation, zero-product results (c, -c) and operand order of mul_add/mul_sub/sub_product decided per operand-triple cell; '
                   'the general-path result of each kernel must depend (data or control) on the operation selector.')
