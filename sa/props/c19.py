"""C19 - random sampling in [0, 1): range proof of the three Standard samplers in may-mode (V3), rand's gen_range contract trusted."""
from fractions import Fraction
import spec as S
import gcr
from gcr import P8, P16, P32
from aval import AInt, AAgg, ARef, ATop, mask, to_signed
from interp import Interp, _static_frame

LEVEL = 'other'


def sampler_path(prog, pty):
    for (tr, selfty), ims in prog.impl_index.items():
        if tr.endswith('Distribution') and selfty.endswith('Standard'):
            for im in ims:
                if im['trait']['args'][1].get('ty') == pty.tykey:
                    for it in im['items']:
                        if it['name'] == 'sample':
                            return it['path']
    return None


class Hook:
    def __init__(self, ctx, pty, pin=None, sub=None):
        self.ctx = ctx
        self.pty = pty
        self.ranges = []
        self.pin = pin      # None or 'hi': pin every gen_range to its upper end point (witness search)
        self.sub = sub      # restrict the first gen_range to [sub[0], sub[1]] (cell refinement of the generator's range)
        self.ncalls = 0
        self.assumed_sub = False

    def reset_path(self):
        self.ncalls = 0

    def __call__(self, I, frame, path, rargs, args, t):
        if path.endswith('Rng::gen_range'):
            rng = args[1] if len(args) > 1 else None
            if isinstance(rng, AAgg) and len(rng.fields) == 2 and all(isinstance(f, AInt) and f.is_const() for f in rng.fields):
                lo, hi = rng.fields[0].lo, rng.fields[1].lo
                b, sg = rng.fields[0].bits, rng.fields[0].signed
                if lo >= hi:
                    return None
                self.ncalls += 1
                if len(self.ranges) < self.ncalls:
                    self.ranges.append((lo, hi))
                if self.pin == 'hi':
                    return AInt.const(b, sg, hi - 1)
                if self.sub is not None and self.ncalls == 1:
                    return AInt(b, sg, max(lo, self.sub[0]), min(hi - 1, self.sub[1]))
                return AInt(b, sg, lo, hi - 1)
            return None
        # assume-guarantee summary of exact posit subtraction on intervals (assumes C01; monotone in both arguments)
        if path == I.p.inherent(self.pty.tykey, 'sub'):
            a, b = args
            fa, fb = a.fields[0], b.fields[0]
            if fa.is_const() and fb.is_const():
                return None  # concrete: interpret the real code
            p = self.pty.posit
            if fa.lo >= 0 and fb.lo >= 0:  # non-negative reals: a - b is monotone increasing in a, decreasing in b
                self.assumed_sub = True
                lo = p.encode(p.decode(fa.lo & p.mask) - p.decode(fb.hi & p.mask))
                hi = p.encode(p.decode(fa.hi & p.mask) - p.decode(fb.lo & p.mask))
                slo, shi = p.order_key(lo), p.order_key(hi)
                return AAgg(self.pty.tykey, [AInt(self.pty.bits, True, slo, shi)])
        return None


def run(ctx):
    prog = ctx.prog('all')
    ctx.rules.append('V3 range obligation: every path of Standard::sample returns an encoding in [0, ONE) and no assertion / panic is reachable (may-mode with refinement)')
    proved = 0
    for pty in (P8, P16, P32):
        path = sampler_path(prog, pty)
        label = 'Standard::sample<%s>' % pty.name
        if not path:
            ctx.finding('ANCHOR', label, 'missing', 'Distribution<%s> for Standard not found' % pty.name)
            continue
        def mk():
            return [ARef(_static_frame(AAgg('Standard', [])), 0, []), ARef(_static_frame(ATop('R')), 0, [], True)]

        def attempt(sub):
            hook = Hook(ctx, pty, sub=sub)
            I = Interp(prog, max_steps=50000)
            I.call_hook = hook
            outs, complete = I.explore(path, mk, max_paths=3000)
            ctx.count('paths', len(outs))
            bad = None
            hi_seen = None
            definite = None
            for o in outs:
                if o.kind == 'infeasible':
                    continue
                if o.kind != 'return':
                    bad = 'a path does not return normally: %s %s at %s' % (o.kind, o.value, o.where)
                    if len(outs) == 1:
                        definite = bad
                    break
                v = o.value.fields[0] if isinstance(o.value, AAgg) and o.value.fields else None
                if not isinstance(v, AInt):
                    bad = 'result of a path is not an integer interval'
                    break
                hi_seen = v.hi if hi_seen is None else max(hi_seen, v.hi)
                if v.lo < 0 or v.hi >= pty.one:
                    bad = 'a path may return an encoding in [%#x, %#x], outside [0, ONE)' % (v.lo & mask(pty.bits), v.hi & mask(pty.bits))
                    if len(outs) == 1 and v.is_const():
                        definite = 'returns %#x' % v.uval()
                    break
            if not complete:
                bad = bad or 'path budget exceeded'
            if not hook.ranges:
                bad = bad or 'no gen_range call with a literal range found'
            return bad, definite, hook, hi_seen, len(outs)

        bad, definite, hook, hi_seen, npaths = attempt(None)
        cells_proved = 0
        if bad is not None and hook.ranges:
            # cell refinement: bisect the first generator range until every cell is proved or a singleton cell refutes
            lo0, hi0 = hook.ranges[0]
            work = [(lo0, hi0 - 1)]
            budget = 200
            witness = None
            unproved = None
            while work and budget > 0 and witness is None:
                a, b = work.pop()
                budget -= 1
                bd, df, hk, hs, _ = attempt((a, b))
                if bd is None:
                    cells_proved += 1
                    hi_seen = hs if hi_seen is None else max(hi_seen, hs or 0)
                    continue
                if a == b:
                    if df:
                        witness = 'gen_range = %#x: the sampler %s' % (a, df)
                    else:
                        unproved = (a, b, bd)
                    continue
                k = (a ^ b).bit_length() - 1          # aligned (binary-trie) split: both halves share a longer known prefix
                m = (b >> k) << k
                work.append((a, m - 1))
                work.append((m, b))
            if witness:
                bad = bad + '; definite witness: ' + witness
            elif not work and unproved is None and budget > 0:
                bad = None
                ctx.count('refinement_cells_proved', cells_proved)
            else:
                bad = bad + ' (cell refinement: %d cells proved, not exhausted)' % cells_proved
        if bad is None:
            proved += 1
            ctx.sample({'sampler': label, 'paths': npaths, 'gen_range': hook.ranges[:3], 'max_encoding': hex(hi_seen) if hi_seen is not None else None,
                        'assumed_exact_sub': hook.assumed_sub, 'refinement_cells': cells_proved})
            if hook.assumed_sub:
                ctx.assumptions.append('%s: P32E2 subtraction of non-negative operands is the exact difference rounded (C01) - used as a monotone interval summary' % label)
            continue
        ctx.finding('RANGE', label, 'in-[0,1)', bad, {'function': path})
    ctx.require('C19 samplers proved', proved + len([f for f in ctx.findings if f.rule == 'RANGE']), 3)
    ctx.trusted += ['rand::Rng::gen_range(a..b) returns a value in [a, b) for a non-empty literal range (rand contract)']
    return LEVEL, ('For the three Standard samplers every path returns an encoding in [0, ONE) (hence a real posit p with 0 <= p < 1) and reaches no failing assertion; '
                   'P32E2 goes through an interval summary of exact subtraction (assumes C01).')
