"""C12 - quire state operations: bit round trip, clear, neg, residual split, posit -> quire definition."""
import itertools

from aval import AInt, AAgg, ARef, ASym, mask, to_signed
from interp import Interp
from symeval import SymEval, strip_refs
import gcr
from gcr import run_cells
from quire_common import *

LEVEL = 'other'


def bits_round_trip(ctx, prog, q):
    """from_bits(to_bits(q)) == q as terms (slot i <-> field i through bijective casts only)"""
    tb = prog.inherent(q.tykey, 'to_bits')
    fb = prog.inherent(q.tykey, 'from_bits')
    if not tb or not fb:
        ctx.finding('ANCHOR', '%s::to_bits/from_bits' % q.name, 'missing', 'function not found')
        return 0
    I = Interp(prog)
    full = tuple((0, mask(b)) for b, _ in q.fields)
    st = q.state(full)
    o1 = I.run(tb, [self_ref(st)])
    if o1.kind != 'return':
        ctx.finding('QBITS', '%s::to_bits' % q.name, 'analysis', 'to_bits is not straight-line: %s' % o1.kind)
        return 0
    o2 = I.run(fb, [o1.value])
    if o2.kind != 'return':
        ctx.finding('QBITS', '%s::from_bits' % q.name, 'analysis', 'from_bits is not straight-line: %s' % o2.kind)
        return 0
    desc = gcr.describe(o2.value)
    descs = desc[1] if desc[0] == 'tuple' else [desc]
    want = [('id', k) for k in range(q.nf)]
    if descs != want:
        ctx.finding('QBITS', '%s::from_bits(to_bits(q))' % q.name, 'round-trip', 'from_bits(to_bits(q)) denotes fields %s, expected %s' % (descs, want))
    else:
        ctx.sample({'rule': 'QBITS', 'quire': q.name, 'fields': q.nf, 'round_trip': 'identity'})
    # to_bits slot order: the image is the two's complement number, most significant limb first
    d1 = gcr.describe(o1.value)
    d1s = d1[1] if d1[0] == 'tuple' else [d1]
    if d1s != want:
        ctx.finding('QBITS', '%s::to_bits' % q.name, 'slot-order', 'to_bits returns slots %s, expected limb i in slot i' % (d1s,))
    return 1


def clear_rule(ctx, prog, q):
    p_ = prog.inherent(q.tykey, 'clear')
    if not p_:
        ctx.finding('ANCHOR', '%s::clear' % q.name, 'missing', 'function not found')
        return 0
    I = Interp(prog)
    full = tuple((0, mask(b)) for b, _ in q.fields)
    args = [self_ref(q.state(full), True)]
    out = I.run(p_, args)
    fin = final_state(I, out, args) if out.kind == 'return' else None
    desc = gcr.describe(fin) if fin is not None else ('top',)
    descs = desc[1] if desc[0] == 'tuple' else [desc]
    if descs != [('const', 0)] * q.nf:
        ctx.finding('QCLEAR', '%s::clear' % q.name, 'state', 'after clear() the accumulator is %s, expected all limbs zero' % (descs,))
    return 1


def neg_spec(q):
    total = sum(b for b, _ in q.fields)

    def spec(xs):
        v = 0
        for x, (b, _) in zip(xs, q.fields):
            v = (v << b) | (x & mask(b))
        if q.is_nar(xs):
            # a NaR quire has no sum to negate, but it must stay NaR until cleared (C04): neg() may not turn it into a number
            return [x & mask(b) for x, (b, _) in zip(xs, q.fields)]
        r = (-v) & mask(total)
        out = []
        sh = total
        for b, _ in q.fields:
            sh -= b
            out.append((r >> sh) & mask(b))
        return out
    return spec


def neg_rule(ctx, prog, q):
    p_ = prog.inherent(q.tykey, 'neg')
    if not p_:
        ctx.finding('ANCHOR', '%s::neg' % q.name, 'missing', 'function not found')
        return 0
    # cells: each limb {0} or non-zero (sign limb additionally split at its sign boundary)
    cellsets = [q.field_cells(k) for k in range(q.nf)]
    spec = neg_spec(q)
    st = run_cells(ctx, prog, 'QNEG', '%s::neg' % q.name, p_,
                   lambda cell: [self_ref(q.state(cell), True)], cellsets, spec, q.out_bits(),
                   extract=final_state, max_product=20000)
    dec = st['decided_const']
    if dec != st['cells']:
        # not an alarm: the body uses something the interpreter does not model; reported as not decided
        ctx.undecided.setdefault('QNEG', []).append('%s::neg: %d of %d state cells not decided' % (q.name, st['cells'] - dec, st['cells']))
    return dec


def simp(t):
    """normalise a term: projection of an aggregate literal, integer cast of a constant"""
    if isinstance(t, tuple):
        t = tuple(simp(x) for x in t)
        if len(t) == 3 and t[0] == 'field' and isinstance(t[1], tuple) and len(t[1]) == 3 and t[1][0] == 'agg' and isinstance(t[2], int) and t[2] < len(t[1][2]):
            return t[1][2][t[2]]
        if len(t) == 4 and t[0] == 'cast' and t[1] == 'IntToInt' and isinstance(t[2], tuple) and len(t[2]) == 3 and t[2][0] == 'c' and isinstance(t[3], str) and t[3][1:].isdigit():
            nb = int(t[3][1:])
            return ('c', nb, t[2][2] & ((1 << nb) - 1))
        return t
    if isinstance(t, list):
        return [simp(x) for x in t]
    return t


def split_rule(ctx, prog, q, se):
    """into_two_posits / into_three_posits: p1 = to_posit(s); s -= p1; p2 = to_posit(s); s -= p2; p3 = to_posit(s)"""
    n = 0
    tp = prog.inherent(q.tykey, 'to_posit')
    ubits = 'u%d' % q.pty.bits
    for name, k in (('into_two_posits', 2), ('into_three_posits', 3)):
        p_ = prog.inherent(q.tykey, name)
        if not p_:
            ctx.finding('ANCHOR', '%s::%s' % (q.name, name), 'missing', 'function not found')
            continue
        r = se.run(p_)
        n += 1
        if r is None:
            ctx.finding('QSPLIT', '%s::%s' % (q.name, name), 'analysis', 'body is not a straight-line sequence of to_posit / -= : %s' % se.last_outcome.kind)
            continue
        states = [('arg', 0)] + [('after', i, 0) for i in range(k - 1)]
        posits = [('app', tp, '', (s,)) for s in states]
        want_ret = ('agg', 0, tuple(posits))
        got_ret = strip_refs(r['ret'])
        ok = got_ret == want_ret
        effs = [strip_refs(e) for e in r['effects']]
        # the reference for each step is the `-= p` spelling itself (SubAssign<P> for Q) applied to (state i, posit i): both sides are
        # normalised by the same term evaluator, so helper names and the way the bits are handed on do not matter
        sp = find_assign_impl(prog, q, 'core::ops::SubAssign', q.pty.tykey)
        if len(effs) != k - 1 or not sp:
            ok = False
        else:
            for i, e in enumerate(effs):
                ref = se.apply(sp, [states[i], posits[i]])
                want_e = [simp(strip_refs(x)) for x in ref['effects']]
                if len(want_e) != 1 or want_e[0] != simp(e):
                    ok = False
        if not ok:
            ctx.finding('QSPLIT', '%s::%s' % (q.name, name), 'sequence', 'does not denote p1=to_posit(s); s-=p1; p2=to_posit(s); ...: returns %r with effects %r'
                        % (got_ret, effs), {'function': p_})
        else:
            ctx.sample({'rule': 'QSPLIT', 'fn': '%s::%s' % (q.name, name), 'sequence': 'to_posit / -= alternation, %d roundings' % k})
    return n


def from_posit_rule(ctx, prog, q, se):
    """From<P> for Q and Q::from_posit denote ZERO += (p, ONE)"""
    n = 0
    ubits = 'u%d' % q.pty.bits
    paths = []
    fp, _ = prog.find_impl_method('core::convert::From', q.tykey, 'from')
    for im in prog.impl_index.get(('core::convert::From', q.tykey), []):
        if im['trait']['args'][1].get('ty') == q.pty.tykey:
            paths.append(('From<%s> for %s' % (q.pty.name, q.name), im['items'][0]['path']))
    ip = prog.inherent(q.tykey, 'from_posit')
    if ip:
        paths.append(('%s::from_posit' % q.name, ip))
    if len(paths) < 2:
        ctx.finding('ANCHOR', '%s from posit' % q.name, 'missing', 'From<P> for Q / from_posit not found')
    zero = ('agg', 0, tuple(('c', b, 0) for b, _ in q.fields))
    for label, p_ in paths:
        r = se.run(p_)
        n += 1
        ok = r is not None
        if ok:
            effs = [strip_refs(e) for e in r['effects']]
            # reference: the `+= (p, ONE)` spelling applied to (ZERO, (p, ONE)), normalised by the same term evaluator
            ap = find_assign_impl(prog, q, 'core::ops::AddAssign', '(%s, %s)' % (q.pty.tykey, q.pty.tykey))
            one_t = ('agg', 0, (('c', q.pty.bits, q.pty.one),))
            ref = se.apply(ap, [zero, ('agg', 0, (('arg', 0), one_t))]) if ap else None
            want_e = [simp(strip_refs(x)) for x in ref['effects']] if ref else None
            ok = (want_e is not None and len(effs) == 1 and len(want_e) == 1 and simp(effs[0]) == want_e[0] and strip_refs(r['ret']) == ('after', 0, 0))
        if not ok:
            ctx.finding('QFROM', label, 'definition', 'does not denote ZERO += (p, ONE): %r' % (r,), {'function': p_})
    return n


def run(ctx):
    prog = ctx.prog('default')
    ctx.rules += ['QBITS: from_bits(to_bits(q)) is the identity on terms, slot i = limb i', 'QCLEAR: clear() stores the all-zero state',
                  'QNEG: neg() decided on every zero/non-zero limb pattern against 2^k-complement negation of the whole accumulator',
                  'QSPLIT: into_two/three_posits denote the to_posit / -= alternation', 'QFROM: From<P> for Q is ZERO += (p, ONE)']
    se = SymEval(prog, max_steps=20000)
    n = 0
    for q in QTYS:
        n += bits_round_trip(ctx, prog, q)
        n += clear_rule(ctx, prog, q)
        n += neg_rule(ctx, prog, q)
        n += split_rule(ctx, prog, q, se)
        n += from_posit_rule(ctx, prog, q, se)
    import rules_routing
    n += rules_routing.quire_round_trip(ctx, prog)
    # the residual split subtracts single posits (`q -= p1`): that spelling applied to the cleared quire must leave exactly -p for every p
    # (QPLACE, shared with C04; here only the `-= p` / `+= p` spellings the split and From<P> rely on)
    import rules_rounding
    from quire_common import placement_tasks
    st_ = rules_rounding.run_parallel(ctx, prog, placement_tasks(prog, ctx.tier, only_kinds={('one', True), ('one', False)}), prefix='placement_')
    ctx.count('placement_cells_total', st_['cells'])
    ctx.count('placement_cells_proved_total', st_['proved'])
    ctx.require('C12 rule instances', n, 500)
    ctx.undecided['general'] = 'exactness of the `-=` inside the residual split (C04 arithmetic); Q32E2::from(p).to_posit() == p (iterator-based limb code)'
    return LEVEL, ('Bit-image round trip, clear, neg (all limb patterns, incl. the 512-bit Q32E2), the to_posit/-= alternation of the residual split and the '
                   'definition of posit->quire are decided; Q8E0/Q16E1 posit->quire->posit is proved the identity for every bit pattern by bit routing per regime cell.')
