"""C15 - P32E2 elementary functions: NaR propagation and domain clauses on guard cells (R2); error bounds are NOT decided."""
from fractions import Fraction
import spec as S
import spec_math
from props.common import *

LEVEL = 'other'

UNARY = {  # name: (ulp bound, documented |x| range or None)
    'sin': (2, 393216), 'cos': (2, 393216), 'tan': (3, 393216), 'asin': (3, None), 'acos': (2, None), 'atan': (3, None),
    'ln': (2, None), 'log2': (3, None), 'exp': (1, 104), 'exp2': (1, 104), 'sinh': (4, 88), 'cosh': (2, 88), 'cbrt': (4, None),
}
BINARY = {'atan2': 3, 'hypot': 4, 'powf': 5}


def uspec(name, bound, rng):
    p = P32.posit

    def spec(xs):
        x = p.decode(xs[0])
        if x == S.NAR:
            return p.nar
        if name in ('ln', 'log2') and x <= 0:
            return p.nar
        if name in ('asin', 'acos') and abs(x) > 1:
            return p.nar
        return None   # the ULP bounds are not claimed by this technique
    return spec


def bspec(name):
    p = P32.posit

    def spec(xs):
        a, b = p.decode(xs[0]), p.decode(xs[1])
        if a == S.NAR or b == S.NAR:
            return p.nar
        return None
    return spec


SPLITS = [(('PI_A', 'PI_B', 'PI_C'), 'pi'), (('L2U', 'L2L'), 'ln2'), (('L10U', 'L10L'), 'log10_2')]


def split_constants(ctx, prog):
    """R4 for the Cody-Waite argument-reduction constants: part k must be the posit rounding (to within one encoding) of the true constant minus
    the parts before it.  An error of more than an ulp in the last part times the largest reduction quotient (1.25e5 for the trig range) exceeds
    the stated ULP bound for the inputs nearest to a multiple of pi."""
    import mpmath
    from interp import Interp
    true = {'pi': mpmath.pi, 'ln2': mpmath.log(2), 'log10_2': mpmath.log10(2)}
    P = P32.posit
    I = Interp(prog)
    n = 0
    for names, cname in SPLITS:
        res = spec_math._frac(mpmath.mpf(true[cname]))
        for nm in names:
            cands = [c for pth, c in prog.consts.items() if pth.endswith('::sleef::' + nm) and 'value' in c]
            if len(cands) != 1:
                break   # constant renamed / removed: no instance (not an alarm)
            v = I.eval_const(cands[0]['value'], None)
            bits = v.fields[0].uval()
            want = P.encode(res)
            n += 1
            if abs(P.order_key(bits) - P.order_key(want)) > 1:
                ctx.finding('R4-split', 'sleef::' + nm, 'value', 'reduction constant %s = %#x denotes %.17g but the %s split requires %#x (%.17g): off by %d encodings'
                            % (nm, bits, float(P.decode(bits)), cname, want, float(P.decode(want)), abs(P.order_key(bits) - P.order_key(want))))
            else:
                ctx.sample({'rule': 'R4-split', 'constant': nm, 'bits': hex(bits), 'expected_rounding_of_residual': hex(want)}, limit=8)
            res -= P.decode(bits)
    return n


def run(ctx):
    prog = ctx.prog('default')
    ctx.rules.append('R2 guarded-cell results: NaR input and out-of-domain cells (constant propagation / interval reasoning through the SLEEF-style bodies)')
    tot = 0
    for name, (bound, rng) in UNARY.items():
        path = anchor(ctx, prog, P32, name)
        if not path:
            continue
        lits = lits_for(prog, path, 32, depth=1)
        cells = cuts_to_cells(32, list(lits) + special_cuts(P32))
        if len(cells) > 120:
            cells = coarse_cells(P32)
        st = run_cells(ctx, prog, 'GCR', 'P32E2::%s' % name, path,
                       lambda cell: [posit_arg(P32, cell[0][0], cell[0][1], 0)], [cells], uspec(name, bound, rng), 32)
        tot += decided(st)
    for name, bound in BINARY.items():
        path = anchor(ctx, prog, P32, name)
        if not path:
            continue
        cells = coarse_cells(P32)
        st = run_cells(ctx, prog, 'GCR', 'P32E2::%s' % name, path,
                       lambda cell: [posit_arg(P32, cell[0][0], cell[0][1], 0), posit_arg(P32, cell[1][0], cell[1][1], 1)], [cells, cells], bspec(name), 32)
        tot += decided(st)
    nsplit = split_constants(ctx, prog)
    ctx.count('split_constant_parts_checked', nsplit)
    ctx.require('C15 decided cells', tot, 100)
    ctx.undecided['error_bounds'] = 'the ULP bounds, argument-reduction accuracy and behaviour at reduction boundaries are NOT decided (no claim)'
    return LEVEL, ('For the 16 P32E2 elementary functions: NaR input gives NaR and arguments outside the real domain (ln/log2 of x <= 0, asin/acos of |x| > 1) give NaR, '
                   'decided on the corresponding cells by interpreting the whole SLEEF-style body. The stated ULP error bounds are not decided by this technique.')
