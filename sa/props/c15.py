"""C15 - P32E2 elementary functions: NaR propagation and domain clauses on guard cells (R2); error bounds are NOT decided."""
from fractions import Fraction
import spec as S
import spec_math
from props.common import *

LEVEL = 'other'

UNARY = {  # name: (ulp bound, documented |x| range or None)
    'sin': (2, 393216), 'cos': (2, 393216), 'tan': (3, 393216), 'asin': (3, None), 'acos': (2, None), 'atan': (3, None),
    'ln': (2, None), 'log2': (3, None), 'exp': (1, 104), 'exp2': (1, 104), 'sinh': (4, 88), 'cosh': (2, 88), 'cbrt': (4, None),
}
BINARY = {'atan2': 3, 'hypot': 4, 'powf': 5}


def uspec(name, bound, rng):
    p = P32.posit

    def spec(xs):
        x = p.decode(xs[0])
        if x == S.NAR:
            return p.nar
        if name in ('ln', 'log2') and x <= 0:
            return p.nar
        if name in ('asin', 'acos') and abs(x) > 1:
            return p.nar
        return None   # the ULP bounds are not claimed by this technique
    return spec


def bspec(name):
    p = P32.posit

    def spec(xs):
        a, b = p.decode(xs[0]), p.decode(xs[1])
        if a == S.NAR or b == S.NAR:
            return p.nar
        return None
    return spec


SPLITS = [(('PI_A', 'PI_B', 'PI_C'), 'pi'), (('L2U', 'L2L'), 'ln2'), (('L10U', 'L10L'), 'log10_2')]


def split_constants(ctx, prog):
    """R4 for the Cody-Waite argument-reduction constants: part k must be the posit rounding (to within one encoding) of the true constant minus
    the parts before it.  An error of more than an ulp in the last part times the largest reduction quotient (1.25e5 for the trig range) exceeds
    the stated ULP bound for the inputs nearest to a multiple of pi."""
    import mpmath
    from interp import Interp
    true = {'pi': mpmath.pi, 'ln2': mpmath.log(2), 'log10_2': mpmath.log10(2)}
    P = P32.posit
    I = Interp(prog)
    n = 0
    for names, cname in SPLITS:
        res = spec_math._frac(mpmath.mpf(true[cname]))
        for nm in names:
            cands = [c for pth, c in prog.consts.items() if pth.endswith('::sleef::' + nm) and 'value' in c]
            if len(cands) != 1:
                break   # constant renamed / removed: no instance (not an alarm)
            v = I.eval_const(cands[0]['value'], None)
            bits = v.fields[0].uval()
            want = P.encode(res)
            n += 1
            if abs(P.order_key(bits) - P.order_key(want)) > 1:
                ctx.finding('R4-split', 'sleef::' + nm, 'value', 'reduction constant %s = %#x denotes %.17g but the %s split requires %#x (%.17g): off by %d encodings'
                            % (nm, bits, float(P.decode(bits)), cname, want, float(P.decode(want)), abs(P.order_key(bits) - P.order_key(want))))
            else:
                ctx.sample({'rule': 'R4-split', 'constant': nm, 'bits': hex(bits), 'expected_rounding_of_residual': hex(want)}, limit=8)
            res -= P.decode(bits)
    return n


def _pts(name, rng, thorough):
    F = Fraction
    base = [F(2) ** k for k in (-30, -20, -10, -5, -3, -2, -1, 0, 1, 2, 3, 5, 10, 17)] + [F(1, 3), F(3, 4), F(5, 4), F(7, 3), F(10), F(100), F(2469, 2), F(100000), F(300000)]
    # the ends of the format: arguments near minpos / maxpos exercise the exponent arithmetic of the range reductions
    base += [F(2) ** k for k in (-120, -119, -110, -100, -97, -90, -61, -45, 45, 61, 90, 100, 110, 119, 120)] + [F(3) * F(2) ** k for k in (-118, -99, 98, 117)]
    if thorough:
        base += [F(2) ** k for k in range(-28, 18, 3)] + [F(k, 7) for k in range(1, 40, 3)] + [F(12345), F(99999, 8), F(1, 1000), F(22, 7), F(355, 113)]
    if name in ('sin', 'cos', 'tan'):
        import mpmath
        base += [spec_math._frac(mpmath.mpf(mpmath.pi) * k / 4) for k in (1, 2, 3, 4, 6, 8, 16, 100)] + [F(3), F(6), F(44, 7), F(710, 113)]
    if name in ('asin', 'acos'):
        base = [F(0), F(1)] + [1 - F(2) ** -k for k in (1, 5, 10, 20, 26)] + [F(2) ** -k for k in (1, 2, 5, 10, 20)] + [F(1, 3), F(3, 4), F(9, 10)]
    if name in ('exp', 'exp2'):
        base = [F(0)] + [F(v) for v in (1, 2, 10, 50, 100, 103)] + [F(2) ** -k for k in (1, 3, 10, 20)] + [F(1, 3), F(7, 2), F(69, 100)]
    if name in ('sinh', 'cosh'):
        base = [F(0)] + [F(v) for v in (1, 2, 10, 50, 87)] + [F(2) ** -k for k in (1, 3, 10, 20)] + [F(1, 3), F(7, 2)]
    if name in ('ln', 'log2'):
        base = [F(2) ** k for k in (-100, -30, -10, -1, 0, 1, 3, 10, 50, 110)] + [1 + F(2) ** -k for k in (1, 10, 20)] + [1 - F(2) ** -k for k in (2, 10, 20)] + [F(3), F(10), F(1, 10), F(2718281828, 10 ** 9), F(1000000)]
    if name == 'cbrt':
        base += [F(8), F(27), F(1, 8), F(1000000), F(1, 1000000), F(2)]
    out = []
    for v in base:
        for sg in ((1, -1) if name not in ('ln', 'log2') else (1,)):
            x = v * sg
            if rng is not None and abs(x) >= rng:
                continue
            out.append(x)
    return out


def _sweep(name, rng, thorough):
    """structured sweep of the documented domain: every binade near one (every 8th far away; thorough: every binade, every 2nd far away) x
    fraction patterns (1.0, 1.0101.., 1.1, 1.11..1, 1.0..01) x both signs, built from the format alone"""
    import math
    F = Fraction
    hi = 119 if rng is None else int(math.floor(math.log2(rng)))
    if name in ('asin', 'acos'):
        hi = -1
    near = range(-34, min(hi, 34) + 1)
    far = [s_ for s_ in range(-119, hi + 1, 2 if thorough else 8) if s_ not in near]
    pats = [F(1), F(4, 3), F(3, 2), 2 - F(2) ** -27, 1 + F(2) ** -27, F(11, 8), F(7, 4), F(5, 4)]
    out = []
    for i, s_ in enumerate(list(near) + far):
        sel = pats if (thorough and s_ in near) else [pats[(i + j) % len(pats)] for j in (0, 3)] if s_ in near else [pats[i % len(pats)]]
        for f_ in sel:
            v = f_ * F(2) ** s_
            if rng is not None and v >= rng:
                continue
            out.append(v)
            if name not in ('ln', 'log2'):
                out.append(-v)
    return out


BIN_PTS = {
    'atan2': [(1, 1), (1, -1), (-1, -1), (-1, 1), (1, 2), (3, -4), (0, 1), (1, 1000), (1000, 1), (-5, 12), (1, 3), (7, 2)],
    'hypot': [(3, 4), (5, 12), (1, 1), (1000, 1), (1, 1000), (8, 15), (-3, 4), (7, 24), (1, 3), (100000, 100000)],
    'powf': [(2, 10), (2, -3), (10, 3), (4, 1), (9, 2), (3, 3), (5, 2), (7, 1), (2, 20), (10, -2),
             (-2, -3), (-1, -1), (-1, -3), (-2, 3), (-3, 2), (-2, -2), (-5, 1), (-2, 10), (-10, -5), (1, 100), (2, 0), (0, 3)],
}
BIN_FRAC = {'powf': [(Fraction(2), Fraction(1, 2)), (Fraction(3, 2), Fraction(5, 2)), (Fraction(1, 2), Fraction(20)), (Fraction(9), Fraction(1, 2)), (Fraction(10), Fraction(-7, 2))]}


def ulp_probe_task(ctx, prog, name, bound, pts, binary=False):
    """constant propagation of the function at the given points; the result must lie within `bound` encodings of the correctly rounded value"""
    import collections
    import mpmath
    import dyntraits
    from interp import Interp
    from aval import AAgg, AInt
    P = P32.posit
    st = collections.Counter()
    path = prog.inherent(P32.tykey, name)
    if not path:
        return st
    I = Interp(prog, max_steps=5000000)
    I.call_hook = dyntraits.DynHook(prog, P32)

    def arg(u):
        sv = u - (1 << 32) if u >> 31 else u
        return AAgg(P32.tykey, [AInt.const(32, True, sv)])
    for pt in pts:
        us = [x[1] if isinstance(x, tuple) and x[0] == 'enc' else (P.encode(Fraction(x)) if x != 0 else 0) for x in (pt if binary else (pt,))]
        vals = [P.decode(u) for u in us]
        if not binary:
            want = spec_math.rounded(P, name, us[0])
        else:
            a, b = [spec_math._mpf(v) for v in vals]
            try:
                y = {'atan2': lambda: mpmath.atan2(a, b), 'hypot': lambda: mpmath.hypot(a, b), 'powf': lambda: mpmath.power(a, b)}[name]()
                fy = spec_math._frac(mpmath.mpf(y))
                lo_, hi_ = P.encode(fy * (1 - spec_math.EPS)), P.encode(fy * (1 + spec_math.EPS))
                want = lo_ if (lo_ == hi_ and fy != 0) else None
            except Exception:
                want = None
        if want is None:
            st['oracle_undecided'] += 1
            continue
        try:
            o = I.run(path, [arg(u) for u in us])
        except Exception as ex:
            st['unsupported'] += 1
            continue
        r = o.value.fields[0] if o.kind == 'return' and isinstance(o.value, AAgg) else None
        if o.kind in ('panic', 'budget'):
            st['no_return'] += 1     # totality is C16's business; not reported here
            continue
        if r is None or not r.is_const():
            st['undecided'] += 1
            continue
        st['points'] += 1
        d = abs(P.order_key(r.uval()) - P.order_key(want))
        st['dist_%s_%d' % (name, d)] += 1     # histogram of encoding distances (summable over the worker chunks)
        if d > bound:
            f = ctx.finding('ULP', 'P32E2::%s' % name, 'bound', 'P32E2::%s(%s) = %#x is %d encodings away from the correctly rounded %#x (stated bound %d)'
                            % (name, ', '.join('%#x' % u for u in us), r.uval(), d, want, bound), {'function': path, 'points': []})
            f.details.setdefault('points', []).append([hex(u) for u in us])
    return st


def run(ctx):
    prog = ctx.prog('default')
    ctx.rules.append('R2 guarded-cell results: NaR input and out-of-domain cells (constant propagation / interval reasoning through the SLEEF-style bodies)')
    tot = 0
    for name, (bound, rng) in UNARY.items():
        path = anchor(ctx, prog, P32, name)
        if not path:
            continue
        lits = lits_for(prog, path, 32, depth=1)
        cells = cuts_to_cells(32, list(lits) + special_cuts(P32))
        if len(cells) > 120:
            cells = coarse_cells(P32)
        st = run_cells(ctx, prog, 'GCR', 'P32E2::%s' % name, path,
                       lambda cell: [posit_arg(P32, cell[0][0], cell[0][1], 0)], [cells], uspec(name, bound, rng), 32)
        tot += decided(st)
    for name, bound in BINARY.items():
        path = anchor(ctx, prog, P32, name)
        if not path:
            continue
        cells = coarse_cells(P32)
        st = run_cells(ctx, prog, 'GCR', 'P32E2::%s' % name, path,
                       lambda cell: [posit_arg(P32, cell[0][0], cell[0][1], 0), posit_arg(P32, cell[1][0], cell[1][1], 1)], [cells, cells], bspec(name), 32)
        tot += decided(st)
    # ULP probes: constant propagation through the whole function (the generic Polynom / Quire calls are resolved by run-time type) at points
    # chosen from the function's definition (powers of two, simple rationals, multiples of pi/4, domain and range edges), on a structured sweep of the documented domain
    # (binades x fraction patterns x signs) and next to every literal the function compares its argument with; singleton verdicts only
    import rules_rounding
    thorough = ctx.tier == 'thorough'
    tasks = []
    for name, (bound, rng) in UNARY.items():
        pts = _pts(name, rng, thorough)
        if not thorough:
            pts = pts[::2] if len(pts) > 80 else pts
        pts = list(pts) + _sweep(name, rng, thorough)
        # the encodings next to every literal the function (and its near callees) compares its argument with: where it switches formulas
        path = prog.inherent(P32.tykey, name)
        if path:
            P = P32.posit
            for c in sorted(lits_for(prog, path, 32, depth=1)):
                for u in (c - 1, c, c + 1):
                    u &= 0xffffffff
                    v = P.decode(u)
                    if v != S.NAR and v != 0 and (rng is None or abs(v) < rng):
                        pts.append(('enc', u))
        ctx.count('ulp_points_requested_' + name, len(pts))
        for i in range(0, len(pts), 40):
            tasks.append((ulp_probe_task, (name, bound, pts[i:i + 40]), {}))
    for name, bound in BINARY.items():
        pts = [(Fraction(a), Fraction(b)) for a, b in BIN_PTS[name]] + BIN_FRAC.get(name, [])
        tasks.append((ulp_probe_task, (name, bound, pts), dict(binary=True)))
    st = rules_rounding.run_parallel(ctx, prog, tasks, prefix='ulp_')
    for name in list(UNARY) + list(BINARY):
        ds = [int(k.rsplit('_', 1)[1]) for k in st if k.startswith('dist_%s_' % name)]
        if ds:
            ctx.cov['ulp_max_distance_' + name] = max(ds)
    ctx.rules.append('ULP probes: constant propagation of each function at definition-derived points vs the 400-bit oracle (bound stated by the crate)')
    ctx.trusted += ['mpmath 1.3 at 400 bits with a two-sided margin test (a point whose rounding is not certain is skipped)', 'run-time resolution of the generic Polynom / Quire trait calls by argument type (sa/dyntraits.py)']
    nsplit = split_constants(ctx, prog)
    ctx.count('split_constant_parts_checked', nsplit)
    ctx.require('C15 decided cells', tot, 100)
    ctx.undecided['error_bounds'] = 'the ULP bounds are checked at the probe points only (singleton verdicts); argument-reduction accuracy and the bounds elsewhere are NOT decided'
    return LEVEL, ('For the 16 P32E2 elementary functions: NaR input gives NaR and arguments outside the real domain (ln/log2 of x <= 0, asin/acos of |x| > 1) give NaR, '
                   'decided on the corresponding cells by interpreting the whole SLEEF-style body. The stated ULP error bounds are not decided by this technique.')
