"""C03 - posit -> float exact (bit routing per regime cell, R7), zero/NaR cells (R2), text round-trip wiring (R1)."""
import spec as S
import gcr
from gcr import P8, P16, P32, posit_arg
from interp import Interp
from symeval import SymEval, strip_refs
from aval import AFloat
import rules_routing

LEVEL = 'proof'


def special_cells(ctx, prog, pty, name, fmt):
    """zero -> +0.0, NaR -> a NaN"""
    path = prog.inherent(pty.tykey, name)
    I = Interp(prog)
    ok = 0
    for x, what in ((0, 'zero'), (pty.nar, 'nar')):
        out = I.run(path, [posit_arg(pty, x, x, 0)])
        v = out.value if out.kind == 'return' else None
        bits = v.pat.uval() if isinstance(v, AFloat) and v.pat is not None and v.pat.is_const() else None
        if what == 'zero':
            good = bits == 0
        else:
            good = bits is not None and fmt.decode(bits) == 'nan'
        if good:
            ok += 1
        else:
            ctx.finding('GCR', '%s::%s' % (pty.name, name), 'cell={%#x}' % x, '%s of %s returns %s (%s), expected %s'
                        % (name, what, v, out.kind, '+0.0' if what == 'zero' else 'NaN'), {'function': path})
    return ok


def calls_of(prog, path):
    b = prog.bodies[path]
    out = []
    for blk in b['blocks']:
        t = blk['term']
        if t['t'] == 'call':
            c = t['callee']
            out.append((c.get('resolved') or c.get('orig'), c.get('rargs') or c.get('oargs') or []))
    return out


def fn_items_passed(prog, path):
    """function items handed to a call as a value (`.map(Self::from_f64)`): they are applied by the callee, so they count as conversions"""
    out = []
    for blk in prog.bodies[path]['blocks']:
        t = blk['term']
        if t['t'] == 'call':
            for a in t['args']:
                c = a.get('const') if isinstance(a, dict) else None
                if isinstance(c, dict) and c.get('fn'):
                    out.append(c['fn'])
    return out


def run(ctx):
    prog = ctx.prog('default')
    ctx.rules += ['R7 bit routing equality per regime cell (sign x regime run x exponent bits, fraction bits symbolic)',
                  'R2 zero / NaR cells', 'R1 P32E2::to_f32 = (to_f64() as f32); Display = "{}" of f64::from(*self); FromStr = From<f64>(f64::from_str(s)?)']
    obligations = discharged = 0
    for pty, name, fmt in ((P8, 'to_f32', S.F32), (P8, 'to_f64', S.F64), (P16, 'to_f32', S.F32), (P16, 'to_f64', S.F64), (P32, 'to_f64', S.F64)):
        path = prog.inherent(pty.tykey, name)
        if not path:
            ctx.finding('ANCHOR', '%s::%s' % (pty.name, name), 'missing', 'function not found')
            continue
        cells, proved = rules_routing.check_conversion(ctx, prog, 'R7', '%s::%s' % (pty.name, name), path, pty, 'float', fmt)
        obligations += cells
        discharged += proved
        obligations += 2
        discharged += special_cells(ctx, prog, pty, name, fmt)
    # round trips posit -> float -> posit (the float side is the repository's own from_fXX): identity for every bit pattern
    for pty, fname in ((P8, 'f64'), (P16, 'f64'), (P32, 'f64'), (P8, 'f32'), (P16, 'f32')):
        c, pr = rules_routing.float_round_trip(ctx, prog, pty, fname)
        obligations += c
        discharged += pr
        # zero and NaR round trips (singleton cells)
        I = Interp(prog)
        to = prog.inherent(pty.tykey, 'to_' + fname)
        fr = prog.inherent(pty.tykey, 'from_' + fname)
        for x in (0, pty.nar):
            obligations += 1
            o1 = I.run(to, [posit_arg(pty, x, x, 0)])
            o2 = I.run(fr, [o1.value]) if o1.kind == 'return' else o1
            d = gcr.describe(o2.value) if o2.kind == 'return' else (o2.kind,)
            if d == ('const', x):
                discharged += 1
            else:
                ctx.finding('R7-roundtrip', '%s::from_%s(to_%s)' % (pty.name, fname, fname), 'cell={%#x}' % x, 'round trip of %#x gives %s' % (x, d))
    # P32E2::to_f32 is the IEEE rounding (language-defined `as` cast) of the exact to_f64
    se = SymEval(prog)
    p32f32 = prog.inherent(P32.tykey, 'to_f32')
    p32f64 = prog.inherent(P32.tykey, 'to_f64')
    obligations += 1
    r = se.run(p32f32) if p32f32 else None
    want = ('cast', 'FloatToFloat', ('app', p32f64, '', (('arg', 0),)), 'f32')
    if r is None or strip_refs(r['ret']) != want:
        ctx.finding('R1', 'P32E2::to_f32', 'wiring', 'P32E2::to_f32 is not `self.to_f64() as f32`: %r' % (r and r['ret'],))
    else:
        discharged += 1
    # Display / FromStr
    for pty in (P8, P16, P32):
        obligations += 2
        dp, _ = prog.find_impl_method('core::fmt::Display', pty.tykey, 'fmt')
        ok = False
        if dp:
            cs = calls_of(prog, dp)
            conv = [c for c, a in cs if c in (prog.inherent(pty.tykey, 'to_f64'),) or (c.endswith('::from') and 'From<%s> for f64' % pty.tykey in c)]
            disp = [c for c, a in cs if c.startswith('core::fmt::rt::Argument') and c.endswith('new_display') and any(x.get('ty') == 'f64' for x in a)]
            others = [c for c, a in cs if 'new_' in c and not c.endswith('new_display') and 'Arguments' not in c]
            # every text-producing call: exactly one write_fmt of the `{}`-formatted f64, or a delegation to <f64 as Display>::fmt; nothing else
            # (a second output path - e.g. a literal written for NaR - would not be parsed back by FromStr)
            deleg = [c for c, a in cs if c.endswith('for f64>::fmt') and 'Display' in c]
            outs = [c for c, a in cs if c.startswith('core::fmt::Formatter') and not c.endswith('::write_fmt')]
            wf = [c for c, a in cs if c.startswith('core::fmt::Formatter') and c.endswith('::write_fmt')]
            ok = len(conv) == 1 and not others and not outs and ((len(disp) == 1 and len(wf) == 1 and not deleg) or (len(deleg) == 1 and not wf and not disp))
        if ok:
            discharged += 1
        else:
            ctx.finding('R1', '<%s as Display>::fmt' % pty.name, 'wiring', 'Display does not format exactly one f64::from(*self) with `{}`')
        fp, _ = prog.find_impl_method('core::str::FromStr', pty.tykey, 'from_str')
        ok = False
        if fp:
            cs = [c for c, a in calls_of(prog, fp)] + fn_items_passed(prog, fp)
            parse = [c for c in cs if c.endswith('for f64>::from_str')]
            conv = [c for c in cs if c.endswith('::from') and 'From<f64> for %s' % pty.tykey in c or c == prog.inherent(pty.tykey, 'from_f64')]
            ok = len(parse) == 1 and len(conv) == 1
        if ok:
            discharged += 1
        else:
            ctx.finding('R1', '<%s as FromStr>::from_str' % pty.name, 'wiring', 'FromStr is not From<f64>(f64::from_str(s)?)')
    ctx.cov['obligations'] = obligations
    ctx.cov['discharged'] = discharged
    ctx.cov['checker_cmd'] = './check C03 --tier ' + ctx.tier
    ctx.require('C03 routing cells', ctx.cov.get('routing_cells', 0), 734)
    ctx.trusted += ['`f64 as f32` is IEEE round-to-nearest-even (language definition)', 'fmt "{}" of f64 prints the shortest round-tripping decimal; f64::from_str is correctly rounded (std)',
                    'oracle routing built from the posit and IEEE-754 field definitions']
    ctx.undecided['round_trips'] = ('posit -> text -> posit relies on std formatting/parsing of f64 (trusted) on top of the proved f64 round trip; '
                                   'P32E2 -> f32 -> P32E2 is not an identity (f32 is narrower) and is not claimed')
    level = LEVEL if obligations == discharged else 'other'
    return level, ('to_f32/to_f64 of P8E0 and P16E1 and to_f64 of P32E2 are proved exact for every bit pattern: on each of the regime cells partitioning all encodings '
                   'the result is bit-for-bit the specified routing of the fraction bits with the specified sign/exponent constants; zero and NaR map to +0.0 and NaN; '
                   'P32E2::to_f32 is the language-defined rounding of the exact f64; Display/FromStr go through f64; posit -> f64 -> posit (and -> f32 -> for P8E0/P16E1) is '
                   'proved the identity for every bit pattern by the same routing argument through the repository\'s from_f64/from_f32.')
