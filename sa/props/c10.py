"""C10 - ordering, sign and selection: exact evaluation on order cells (proof level).

Cells: every argument's bit patterns are partitioned at the constants {NaR, 0} (plus every literal the function compares with)
into singletons and, inside each gap, [lo, m-1], {m}, [m+1, hi].  The product cells partition all argument tuples.
A product cell in which no two arguments share the same non-singleton cell must be decided by the abstract interpreter
(obligation).  The remaining "same-gap" cells are covered by order isomorphism for functions that touch their arguments only
through comparisons (checked by a dataflow pass over the MIR); for the other functions (neg, abs, signum, copysign) they too
must be decided directly.  Every decided result (constant / one of the arguments / its negation) is compared with the order on
the represented reals.
"""
import itertools
import spec as S
import gcr
from gcr import PTy, P8, P16, P32, posit_arg, run_cells, fmt_cell, describe, witnesses, obtained_at
from aval import mask, to_signed
from interp import Interp

LEVEL = 'proof'
NS_QUICK = (2, 3, 8, 16, 31, 32)
NS_ALL = tuple(range(2, 33))

CMP_OPS = {'Eq', 'Ne', 'Lt', 'Le', 'Gt', 'Ge', 'Cmp'}
CMP_CALLS = ('core::cmp::PartialOrd::', 'core::cmp::PartialEq::', 'core::cmp::Ord::', 'core::cmp::impls::')


def order_cells(bits, consts):
    m = mask(bits)
    sb = 1 << (bits - 1)
    # order of patterns as signed values: sb..m (negative), 0..sb-1
    cs = sorted(set(to_signed(c & m, bits) for c in consts) | {-(1 << (bits - 1)), 0})
    cells = []

    def u(v):
        return v & m
    prev = None
    allpts = cs
    lo_all, hi_all = -(1 << (bits - 1)), (1 << (bits - 1)) - 1
    cur = lo_all
    for c in allpts:
        if c > cur:
            cells += gap(cur, c - 1)
        cells.append((c, c))
        cur = c + 1
    if cur <= hi_all:
        cells += gap(cur, hi_all)
    return [(u(a), u(b)) for a, b in cells]


def gap(lo, hi):
    n = hi - lo + 1
    if n <= 2:
        return [(x, x) for x in range(lo, hi + 1)]
    mid = lo + n // 2
    return [(lo, mid - 1), (mid, mid), (mid + 1, hi)]


def key(p, x):
    return p.order_key(x)


def specs(pty):
    p = pty.posit
    nar = p.nar
    M = mask(pty.bits)

    def bool_(f):
        return lambda xs: 1 if f(*[key(p, x) for x in xs]) else 0

    def sel(f):
        return lambda xs: f(*xs)

    def real(x):
        return p.decode(x)

    def clamp(x, lo, hi):
        if key(p, lo) > key(p, hi):
            return None
        if key(p, x) < key(p, lo):
            return lo
        if key(p, x) > key(p, hi):
            return hi
        return x

    def signum(x):
        v = real(x)
        if v == S.NAR:
            return nar
        return p.encode(0 if v == 0 else (1 if v > 0 else -1))

    def copysign(x, y):
        vy = real(y)
        vx = real(x)
        if vy == S.NAR:
            return None
        if vx == S.NAR:
            return nar
        a = abs(vx)
        return p.encode(-a if vy < 0 else a)

    def classify(x):
        v = real(x)
        return 0 if v == S.NAR else (2 if v == 0 else 4)

    return {
        # name: (arity, spec, out_bits)
        'eq': (2, bool_(lambda a, b: a == b), 1),
        'lt': (2, bool_(lambda a, b: a < b), 1),
        'le': (2, bool_(lambda a, b: a <= b), 1),
        'gt': (2, bool_(lambda a, b: a > b), 1),
        'ge': (2, bool_(lambda a, b: a >= b), 1),
        'cmp': (2, lambda xs: 0 if key(p, xs[0]) < key(p, xs[1]) else (1 if xs[0] == xs[1] else 2), 8),
        'min': (2, sel(lambda a, b: a if key(p, a) < key(p, b) else b), pty.bits),
        'max': (2, sel(lambda a, b: a if key(p, a) > key(p, b) else b), pty.bits),
        'clamp': (3, sel(clamp), pty.bits),
        'neg': (1, lambda xs: p.encode(S.NAR if real(xs[0]) == S.NAR else -real(xs[0])), pty.bits),
        'abs': (1, lambda xs: p.encode(S.NAR if real(xs[0]) == S.NAR else abs(real(xs[0]))), pty.bits),
        'signum': (1, lambda xs: signum(xs[0]), pty.bits),
        'copysign': (2, lambda xs: copysign(*xs), pty.bits),
        'is_sign_negative': (1, lambda xs: None if xs[0] == nar else (1 if key(p, xs[0]) < 0 else 0), 1),
        'is_sign_positive': (1, lambda xs: None if xs[0] == nar else (0 if key(p, xs[0]) < 0 else 1), 1),
        'is_zero': (1, lambda xs: 1 if xs[0] == 0 else 0, 1),
        'is_nar': (1, lambda xs: 1 if xs[0] == nar else 0, 1),
        'is_nan': (1, lambda xs: 1 if xs[0] == nar else 0, 1),
        'is_finite': (1, lambda xs: 0 if xs[0] == nar else 1, 1),
        'classify': (1, lambda xs: classify(xs[0]), 8),
    }


NOT_CMP_ONLY = {'neg', 'abs', 'signum', 'copysign'}

TRAIT_SPELLINGS = {
    # derived / trait spellings evaluated on the same cells: (trait path, method) -> spec name
    ('core::cmp::PartialEq', 'eq'): 'eq',
    ('core::cmp::Ord', 'cmp'): 'cmp',
    ('core::cmp::PartialOrd', 'partial_cmp'): 'partial_cmp',
}


def comparison_only(prog, path, seen=None):
    """dataflow: values derived from the arguments flow only through moves, projections, references, comparisons, calls of
    comparison-only functions, and the return place"""
    if seen is None:
        seen = set()
    if path in seen:
        return True
    seen.add(path)
    body = prog.bodies.get(path)
    if body is None:
        return False
    tainted = set(range(1, body['arg_count'] + 1))
    changed = True

    def op_locals(o):
        pl = o.get('copy') or o.get('move') if isinstance(o, dict) else None
        return {pl['l']} if pl is not None else set()
    ok = True
    while changed:
        changed = False
        for blk in body['blocks']:
            for st in blk['stmts']:
                if st['s'] != 'assign':
                    continue
                rv = st['rvalue']
                dst = st['place']['l']
                k = rv['rv']
                srcs = set()
                for kk in ('op', 'a', 'b'):
                    if kk in rv:
                        srcs |= op_locals(rv[kk])
                for o in rv.get('ops', []):
                    srcs |= op_locals(o)
                if 'place' in rv:
                    srcs.add(rv['place']['l'])
                if not (srcs & tainted):
                    continue
                if k in ('use', 'ref', 'agg', 'discr') or (k == 'cast' and rv['kind'].startswith('PointerCoercion')):
                    if dst not in tainted:
                        tainted.add(dst)
                        changed = True
                elif k == 'bin' and rv['op'] in CMP_OPS:
                    pass  # result is an order fact, not a value
                else:
                    ok = False
            t = blk['term']
            if t['t'] == 'call':
                srcs = set()
                for a in t['args']:
                    srcs |= op_locals(a)
                if srcs & tainted:
                    cp = t['callee'].get('resolved') or t['callee'].get('orig') or ''
                    if cp.startswith(CMP_CALLS) or cp.startswith('core::panicking'):
                        if 'max' in cp or 'min' in cp or 'clamp' in cp:
                            if t['dest']['l'] not in tainted:
                                tainted.add(t['dest']['l'])
                                changed = True
                    elif cp in prog.bodies and comparison_only(prog, cp, seen):
                        if t['dest']['l'] not in tainted:
                            tainted.add(t['dest']['l'])
                            changed = True
                    else:
                        ok = False
    return ok


def run_function(ctx, prog, pty, tykey, label, path, arity, spec, out_bits, cells, cmp_only, gargs=None, align=0):
    """returns (obligations, discharged)"""
    I = Interp(prog)
    obligations = discharged = 0
    for cell in itertools.product(*[cells] * arity):
        same_gap = any(cell[i] == cell[j] and cell[i][0] != cell[i][1] for i in range(arity) for j in range(i + 1, arity))
        args = [posit_arg(pty, c[0], c[1], i, tykey) for i, c in enumerate(cell)]
        body = prog.bodies[path]
        # &self receivers
        real_args = []
        from interp import _static_frame
        from aval import ARef
        for i, a in enumerate(args):
            tk = body['locals'][i + 1]['ty']
            t = prog.types.get(tk) or {}
            real_args.append(ARef(_static_frame(a), 0, []) if t.get('k') == 'ref' else a)
        out = I.run(path, real_args, gargs)
        wits = list(itertools.product(*[sorted({(w >> align) << align for w in witnesses(lo, hi, 3)}) for lo, hi in cell]))
        if same_gap:
            wits = [w for w in wits]
        must = (not same_gap) or (not cmp_only)
        excluded = all(spec(xs) is None for xs in wits)
        if must and not excluded:
            obligations += 1
        ctx.count('cells')
        if out.kind == 'return':
            v = out.value
            from aval import AAgg
            # Option<Ordering> -> ordering variant
            if isinstance(v, AAgg) and v.ty == 'core::option::Option' and v.variant == 1:
                v = v.fields[0]
            desc = describe(v)
            if desc[0] in ('top', 'tuple'):
                ctx.count('undecided_cells')
                continue
            bad = None
            for xs in wits:
                e = spec(xs)
                if e is None:
                    continue
                g = obtained_at(desc, xs, out_bits)
                if g != (e & mask(out_bits)):
                    bad = (xs, e, g)
                    break
            if bad:
                xs, e, g = bad
                ctx.finding('ORD', label, 'cell=' + fmt_cell(cell),
                            'for every argument tuple of cell %s the result is %s, but the order on the reals requires %#x for %s (obtained %#x)'
                            % (fmt_cell(cell), desc, e, tuple(hex(x) for x in xs), g),
                            {'cell': cell, 'descriptor': desc, 'witness': [hex(x) for x in xs], 'function': path})
            elif must and not excluded:
                discharged += 1
                ctx.sample({'fn': label, 'cell': fmt_cell(cell), 'result': desc}, limit=10)
        elif out.kind == 'panic':
            if excluded:
                continue
            ctx.finding('ORD', label, 'cell=' + fmt_cell(cell), 'on cell %s the function panics: %s at %s' % (fmt_cell(cell), out.value, out.where),
                        {'cell': cell, 'function': path})
        else:
            ctx.count('undecided_cells')
    return obligations, discharged


def premises(ctx, prog, tykey):
    """one-field tuple struct over the signed integer, derived PartialEq/Eq/PartialOrd/Ord"""
    t = prog.types.get(tykey)
    ok = True
    if not t or t['k'] != 'adt' or len(t['variants']) != 1 or len(t['variants'][0]['fields']) != 1:
        ctx.finding('ORD-premise', tykey, 'layout', 'type is not a one-field struct')
        return False
    ft = prog.ty(t['variants'][0]['fields'][0]['ty'])
    if ft['k'] != 'int' or not ft['signed']:
        ctx.finding('ORD-premise', tykey, 'field', 'the posit field is not a signed integer (two\'s complement order premise)')
        ok = False
    for tr in ('core::cmp::PartialEq', 'core::cmp::PartialOrd', 'core::cmp::Ord'):
        ims = prog.impl_index.get((tr, tykey), [])
        if not ims:
            ctx.finding('ORD-premise', tykey, tr, 'no impl of %s' % tr)
            ok = False
        elif not all(im['derived'] for im in ims):
            ctx.notes.append('%s for %s is hand-written: analysed as code' % (tr, tykey))
    return ok


def run(ctx):
    prog = ctx.prog('default')
    ctx.rules.append('order cells: exact abstract evaluation on a partition of all argument tuples; comparison-only dataflow check; derive premises')
    obligations = discharged = 0
    nfun = 0
    # format premise (no repository code): two's complement order == real order, NaR least; negation symmetric
    for pty in (P8, P16):
        p = pty.posit
        ks = sorted(range(1 << p.n), key=p.order_key)
        assert ks[0] == p.nar
        prev = None
        for b in ks[1:]:
            v = p.decode(b)
            assert prev is None or prev < v
            prev = v
            assert p.decode((-b) & p.mask) == -v
    ctx.count('format_premise_patterns_checked', (1 << 8) + (1 << 16))
    for pty in (P8, P16, P32):
        premises(ctx, prog, pty.tykey)
        sp = specs(pty)
        for name, (arity, spec, out_bits) in sp.items():
            path = prog.inherent(pty.tykey, name)
            if not path:
                ctx.finding('ANCHOR', '%s::%s' % (pty.name, name), 'missing', 'public function not found')
                continue
            lits = {l for l in gcr.collect_literals(prog, path, depth=2) if -(1 << pty.bits) < l < (1 << pty.bits)}
            cells = order_cells(pty.bits, [0, pty.nar] + ([pty.one] if name in NOT_CMP_ONLY else []))
            cmp_only = name not in NOT_CMP_ONLY and comparison_only(prog, path)
            if name not in NOT_CMP_ONLY and not cmp_only:
                ctx.notes.append('%s::%s is not comparison-only: every product cell must be decided directly' % (pty.name, name))
            o, d = run_function(ctx, prog, pty, pty.tykey, '%s::%s' % (pty.name, name), path, arity, spec, out_bits, cells, cmp_only)
            obligations += o
            discharged += d
            nfun += 1
        # derived / trait spellings and Float::max/min (Ord::max/min on the derived order)
        for (tr, meth), sname in TRAIT_SPELLINGS.items():
            p_, im = prog.find_impl_method(tr, pty.tykey, meth)
            if not p_:
                ctx.finding('ANCHOR', '%s as %s::%s' % (pty.name, tr, meth), 'missing', 'impl method not found')
                continue
            arity, spec, out_bits = sp['cmp'] if sname == 'partial_cmp' else sp[sname]
            cells = order_cells(pty.bits, [0, pty.nar])
            o, d = run_function(ctx, prog, pty, pty.tykey, '<%s as %s>::%s' % (pty.name, tr, meth), p_, arity, spec, out_bits, cells, True)
            obligations += o
            discharged += d
            nfun += 1
        for meth in ('max', 'min'):
            p_, im = prog.find_impl_method('num_traits::Float', pty.tykey, meth)
            if p_:
                arity, spec, out_bits = sp[meth]
                cells = order_cells(pty.bits, [0, pty.nar])
                o, d = run_function(ctx, prog, pty, pty.tykey, '<%s as num_traits::Float>::%s' % (pty.name, meth), p_, arity, spec, out_bits, cells, True)
                obligations += o
                discharged += d
                nfun += 1
    # generic widths: const comparison fns, Neg, derives; the body does not depend on N (checked: N does not occur)
    for tname, tykey, es in (('PxE1', 'pxe1::PxE1<N>', 1), ('PxE2', 'pxe2::PxE2<N>', 2)):
        premises(ctx, prog, tykey)
        pty = PTy(tname, tykey, 32, es)
        sp = specs(pty)
        for name in ('eq', 'lt', 'le', 'gt', 'ge', 'cmp', 'is_zero', 'is_nar'):
            path = prog.inherent(tykey, name)
            if not path:
                ctx.finding('ANCHOR', '%s::%s' % (tname, name), 'missing', 'public function not found')
                continue
            arity, spec, out_bits = sp[name]
            cells = order_cells(32, [0, pty.nar])
            o, d = run_function(ctx, prog, pty, tykey, '%s::%s' % (tname, name), path, arity, spec, out_bits, cells, comparison_only(prog, path), gargs={'N': 8})
            obligations += o
            discharged += d
            nfun += 1
            # the same for the N-bit patterns of every analysed width (left-aligned, witnesses canonical): a body that does use N - a shift
            # by 32-N, a mask - is then decided per N on the cells that separate NaR, zero and the two signs
            for n in (NS_QUICK if ctx.tier == 'quick' else NS_ALL):
                sh = 32 - n
                ncells = [(lo << sh, (hi << sh) | ((1 << sh) - 1) if lo != hi else hi << sh) for lo, hi in order_cells(n, [0, 1 << (n - 1)])]
                o, d = run_function(ctx, prog, pty, tykey, '%s<%d>::%s' % (tname, n, name), path, arity, spec, out_bits, ncells,
                                    comparison_only(prog, path), gargs={'N': n}, align=sh)
                obligations += o
                discharged += d
                ctx.count('generic_width_instances')
        p_, im = prog.find_impl_method('core::ops::Neg', tykey, 'neg')
        if p_:
            arity, spec, out_bits = sp['neg']
            o, d = run_function(ctx, prog, pty, tykey, '<%s as Neg>::neg' % tname, p_, 1, spec, 32, order_cells(32, [0, pty.nar]), False, gargs={'N': 8})
            obligations += o
            discharged += d
            nfun += 1
            for n in (NS_QUICK if ctx.tier == 'quick' else NS_ALL):
                sh = 32 - n
                ncells = [(lo << sh, (hi << sh) | ((1 << sh) - 1) if lo != hi else hi << sh) for lo, hi in order_cells(n, [0, 1 << (n - 1)])]
                o, d = run_function(ctx, prog, pty, tykey, '<%s<%d> as Neg>::neg' % (tname, n), p_, 1, spec, 32, ncells, False, gargs={'N': n}, align=sh)
                obligations += o
                discharged += d
                ctx.count('generic_width_instances')
    ctx.cov['obligations'] = obligations
    ctx.cov['discharged'] = discharged
    ctx.cov['checker_cmd'] = './check C10 --tier ' + ctx.tier
    ctx.count('functions', nfun)
    ctx.require('C10 functions analysed', nfun, 80)
    ctx.require('C10 obligations', obligations, 1500)
    level = LEVEL if obligations == discharged and not ctx.findings else 'other'
    ctx.trusted += ['core::cmp default methods (lt/le/gt/ge/max/min defined from partial_cmp/cmp)', 'rustc derive(PartialEq, PartialOrd, Ord) on a one-field struct compares the field',
                    'format premise: two\'s-complement order of posit encodings is the order of the reals, NaR least (oracle-checked exhaustively for 8/16 bits)']
    ctx.notes.append('copysign(x, NaR), clamp with min > max, is_sign_*(NaR) are excluded from the claim (conventions left open)')
    return level, ('Comparison, selection, sign and classification functions evaluated exactly on a partition of all argument tuples into order cells; '
                   'every obligation (product cell that must be decided) is discharged and agrees with the order of the represented reals.')
