"""C01 - add/sub/mul/div: NaR/zero algebra and guard cells (R2)."""
import spec as S
from props.common import *

LEVEL = 'other'

OPS = {
    'add': nar_strict2(lambda a, b: a + b),
    'sub': nar_strict2(lambda a, b: a - b),
    'mul': nar_strict2(lambda a, b: a * b),
    'div': nar_strict2(lambda a, b: S.NAR if b == 0 else a / b),
}


def run(ctx):
    prog = ctx.prog('default')
    ctx.rules.append('R2 guarded-cell results on operand-pair cells (NaR / zero / sign / literal cut points)')
    tot = 0
    for pty in PTYS:
        for name, f in OPS.items():
            path = anchor(ctx, prog, pty, name)
            if not path:
                continue
            lits = lits_for(prog, path, pty.bits, depth=0)
            cells = cuts_to_cells(pty.bits, list(lits) + special_cuts(pty))
            if len(cells) > 40:
                cells = coarse_cells(pty)
            st = run_cells(ctx, prog, 'GCR', '%s::%s' % (pty.name, name), path,
                           lambda cell, pty=pty: [posit_arg(pty, cell[0][0], cell[0][1], 0), posit_arg(pty, cell[1][0], cell[1][1], 1)],
                           [cells, cells], posit_binary_spec(pty, f), pty.bits)
            tot += decided(st)
            import probes
            pc = probes.singles(probes.small_posit_probes(pty) if ctx.tier == 'quick' else probes.posit_probes(pty))
            st = run_cells(ctx, prog, 'GCR', '%s::%s' % (pty.name, name), path,
                           lambda cell, pty=pty: [posit_arg(pty, cell[0][0], cell[0][1], 0), posit_arg(pty, cell[1][0], cell[1][1], 1)],
                           [pc, pc], posit_binary_spec(pty, f), pty.bits, max_product=40000)
            ctx.count('probe_cells', st['cells'])
    ctx.require('C01 decided cells', tot, 300)
    ctx.undecided['general_path'] = 'alignment, sticky collection, rounding and saturation on the general arithmetic path are not decided'
    return LEVEL, ('NaR/zero algebra and evaluation order of the guards of + - * / for the three fixed types, decided for all operand pairs of each '
                   'control-determinate cell by abstract interpretation of the MIR; exact rational oracle at witnesses.')
