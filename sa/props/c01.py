"""C01 - add/sub/mul/div: NaR/zero algebra and guard cells (R2)."""
import spec as S
from props.common import *

LEVEL = 'other'

OPS = {
    'add': nar_strict2(lambda a, b: a + b),
    'sub': nar_strict2(lambda a, b: a - b),
    'mul': nar_strict2(lambda a, b: a * b),
    'div': nar_strict2(lambda a, b: S.NAR if b == 0 else a / b),
}


def run(ctx):
    prog = ctx.prog('default')
    ctx.rules.append('R2 guarded-cell results on operand-pair cells (NaR / zero / sign / literal cut points)')
    tot = 0
    pjobs = []
    for pty in PTYS:
        for name, f in OPS.items():
            path = anchor(ctx, prog, pty, name)
            if not path:
                continue
            lits = lits_for(prog, path, pty.bits, depth=0)
            cells = cuts_to_cells(pty.bits, list(lits) + special_cuts(pty))
            if len(cells) > 40:
                cells = coarse_cells(pty)
            st = run_cells(ctx, prog, 'GCR', '%s::%s' % (pty.name, name), path,
                           lambda cell, pty=pty: [posit_arg(pty, cell[0][0], cell[0][1], 0), posit_arg(pty, cell[1][0], cell[1][1], 1)],
                           [cells, cells], posit_binary_spec(pty, f), pty.bits)
            tot += decided(st)
            import probes
            pc = probes.singles(probes.small_posit_probes(pty) if ctx.tier == 'quick' else probes.posit_probes(pty))
            st = run_cells(ctx, prog, 'GCR', '%s::%s' % (pty.name, name), path,
                           lambda cell, pty=pty: [posit_arg(pty, cell[0][0], cell[0][1], 0), posit_arg(pty, cell[1][0], cell[1][1], 1)],
                           [pc, pc], posit_binary_spec(pty, f), pty.bits, max_product=200000)
            ctx.count('probe_cells', st['cells'])
            # rounding matrix: every result scale x rounding situation (exact / below / tie even / tie odd / above / carry-out), directed construction
            pts = probes.op_probes(pty, name, 1 if ctx.tier == 'quick' else 2)
            if name == 'mul':
                pts = pts + probes.mul_sparse_probes(pty, 6 if ctx.tier == 'quick' else 24)     # dense x dense products in extreme rounding situations
            pjobs.append(dict(rule='GCR', label='%s::%s' % (pty.name, name), path=path, pty=pty, points=pts, spec=posit_binary_spec(pty, f)))
    # P8E0: every one of the 2^16 operand pairs of + - * / singly (enumeration of singleton cells): decides the four P8E0 operations for all inputs
    p8pairs = [(a, b) for a in range(256) for b in range(256)]
    n8 = 0
    for name, f in OPS.items():
        path = prog.inherent(P8.tykey, name)
        if path:
            pjobs.append(dict(rule='GCR', label='P8E0::%s' % name, path=path, pty=P8, points=p8pairs, spec=posit_binary_spec(P8, f)))
            n8 += len(p8pairs)
    ctx.count('p8_operand_pairs_decided_singly', n8)
    ctx.rules.append('singleton cells: all 2^16 operand pairs of P8E0 + - * /; rounding-matrix and sparse-product probes for the three types')
    run_points_parallel(ctx, prog, pjobs, chunk=2048)
    # R10 with one symbolic operand: a (+/-) b for a constant a = 2^s * 1.0 or 2^s * 1.1..1 and *every* b of a regime cell placed so that the
    # exact result is a routing of b's bits (no literal meets a one or a carry); then the rounding cases of the result.  Proves alignment,
    # sticky collection, rounding, carry-out and saturation of add_mags / sub_mags on those families, both operand orders, both signs.
    import rules_rounding
    ctx.trusted += [t for t in rules_rounding.TRUSTED if t not in ctx.trusted]
    ctx.rules.append('R10 (one symbolic operand): a +/- b with a constant, b symbolic per regime cell; result vector == correctly rounded sum / difference')
    tasks = []
    for pty in PTYS:
        maxs = (pty.bits - 2) << pty.es
        allsc = list(range(-maxs, maxs))
        if pty.bits == 32 and ctx.tier == 'quick':
            allsc = [s_ for s_ in allsc if s_ % 4 in (0, 3) and (s_ >> 2) % 2 == 0]
        for opn in ('add', 'sub'):
            path = prog.inherent(pty.tykey, opn)
            if not path:
                continue
            chunk = 8 if pty.bits > 8 else len(allsc)
            for i in range(0, len(allsc), chunk):
                for swap in (False, True):
                    for neg in (False, True):
                        if pty.bits == 32 and ctx.tier == 'quick' and swap != neg:
                            continue
                        tasks.append((rules_rounding.check_add, ('R10', '%s::%s' % (pty.name, opn), path, pty, False),
                                      dict(scales=allsc[i:i + chunk], swap=swap, negative=neg, op=opn)))
    # b * 2^t, 2^t * b, b / 2^t for every posit b of every regime cell: the result is b's significand at another scale (rounding cells there)
    ctx.rules.append('R10 (one symbolic operand): b * 2^t, 2^t * b, b / 2^t per regime cell of b and rounding case at the result scale')
    for pty in PTYS:
        maxs = (pty.bits - 2) << pty.es
        tsel = {8: [-5, -2, -1, 0, 1, 3, 6], 16: [-27, -13, -6, -1, 0, 1, 2, 7, 14, 26], 32: [-119, -60, -17, -4, -1, 0, 1, 3, 8, 33, 90, 118]}[pty.bits]
        if ctx.tier == 'thorough':
            tsel = list(range(-maxs, maxs, 1 if pty.bits < 32 else 3))
        for opn, orders in (('mul', ('bc', 'cb')), ('div', ('bc',))):
            path = prog.inherent(pty.tykey, opn)
            if not path:
                continue
            for order in orders:
                for t_ in tsel:
                    tasks.append((rules_rounding.check_mul_pow2, ('R10', '%s::%s' % (pty.name, opn), path, pty, opn, order, False, [t_]), {}))
    st = rules_rounding.run_parallel(ctx, prog, tasks)
    ctx.count('one_symbolic_operand_cells', st['cells'])
    ctx.count('one_symbolic_operand_cells_proved', st['proved'])
    ctx.require('C01 decided cells', tot, 300)
    ctx.undecided['general_path'] = 'P16E1 / P32E2: products and quotients of two dense significands, sums whose exact value is not a routing of one operand, beyond the probed pairs (P8E0 is decided for every operand pair by enumeration)'
    return LEVEL, ('NaR/zero algebra and evaluation order of the guards of + - * / for the three fixed types, decided for all operand pairs of each '
                   'control-determinate cell by abstract interpretation of the MIR; exact rational oracle at witnesses.')
