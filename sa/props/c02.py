"""C02 - float -> posit: guard cells on the float bit pattern (R2) + rounding cells for every normal float (R10)."""
from fractions import Fraction
import spec as S
from props.common import *

LEVEL = 'proof'


def f2p_spec(pty, fmt):
    p = pty.posit

    def spec(xs):
        v = fmt.decode(xs[0])
        if isinstance(v, str):
            return p.nar
        return p.encode(v)
    return spec


def run(ctx):
    prog = ctx.prog('default')
    ctx.rules.append('R2 guarded-cell results on float bit-pattern cells')
    tot = 0
    for pty in PTYS:
        for fname, fmt in (('f32', S.F32), ('f64', S.F64)):
            path = anchor(ctx, prog, pty, 'from_' + fname)
            if not path:
                continue
            lits = lits_for(prog, path, fmt.bits, depth=1)
            import probes
            cells = cuts_to_cells(fmt.bits, lits)
            have = {c[0] for c in cells if c[0] == c[1]}
            cells += [c for c in probes.singles(probes.float_tie_probes(pty, fmt)) if c[0] not in have]
            st = run_cells(ctx, prog, 'GCR', '%s::from_%s' % (pty.name, fname), path,
                           lambda cell, fmt=fmt: [float_arg(fmt.bits, cell[0][0], cell[0][1], 0)], [cells],
                           f2p_spec(pty, fmt), pty.bits)
            tot += decided(st)
    ctx.require('C02 decided cells', tot, 100)
    # R10: every normal float, per rounding cell (sign x exponent x rounding situation; other significand bits symbolic)
    import rules_rounding
    ctx.trusted += [t for t in rules_rounding.TRUSTED if t not in ctx.trusted]
    ctx.rules.append('R10 rounding cells: symbolic bit-vector result == correctly rounded encoding, per (sign, exponent, rounding case)')
    thorough = ctx.tier == 'thorough'
    cells = proved = 0
    sampled = []
    for pty in PTYS:
        for fname, fmt in (('f32', S.F32), ('f64', S.F64)):
            path = prog.inherent(pty.tykey, 'from_' + fname)
            if not path:
                continue
            full = thorough or not (fname == 'f64' and pty.bits == 32)
            if not full:
                sampled.append('%s::from_%s' % (pty.name, fname))
            st = rules_rounding.check_float_to_posit(ctx, prog, 'R10', '%s::from_%s' % (pty.name, fname), path, fmt, pty, full)
            cells += st['cells']
            proved += st['proved']
    # the patterns outside the rounding cells: zeros, subnormals, infinities and NaNs must be decided by the guard layer
    special = 0
    for pty in PTYS:
        for fname, fmt in (('f32', S.F32), ('f64', S.F64)):
            path = prog.inherent(pty.tykey, 'from_' + fname)
            if not path:
                continue
            sgn = 1 << (fmt.bits - 1)
            top = fmt.emax << fmt.mbits
            sc = [(0, 0), (1, (1 << fmt.mbits) - 1), (top, top), (top + 1, sgn - 1)]
            sc += [(lo | sgn, hi | sgn) for lo, hi in sc]
            st = run_cells(ctx, prog, 'GCR', '%s::from_%s' % (pty.name, fname), path,
                           lambda cell, fmt=fmt: [float_arg(fmt.bits, cell[0][0], cell[0][1], 0)], [sc], f2p_spec(pty, fmt), pty.bits)
            special += decided(st)
    ctx.count('special_pattern_cells_decided', special)
    ctx.count('special_pattern_cells', 48)
    complete = (cells == proved and special == 48)
    ctx.cov['obligations'] = cells + 48
    ctx.cov['discharged'] = proved + special
    ctx.cov['checker_cmd'] = './check C02 --tier ' + ctx.tier
    if sampled:
        ctx.notes.append('quick tier: sticky position and carry-run length are sampled (3 / 4 values) for %s; the thorough tier takes all' % ', '.join(sampled))
    if not complete:
        ctx.notes.append('not every obligation was discharged in this run (%d/%d rounding cells, %d/48 special cells): the verdict of this run is weaker than a proof' % (proved, cells, special))
    ctx.undecided['general_path'] = 'nothing for normal floats whose rounding cell was proved; undecided cells are counted above'
    return (LEVEL if complete else 'other'), ('Every finite non-zero normal f32/f64 is covered by a rounding cell (sign, exponent, rounding situation; remaining significand bits symbolic) on which the '
                   'returned bit-vector equals the correctly rounded posit encoding; zeros, subnormals, infinities and NaNs are decided by the guard layer on interval cells. '
                   'Hence from_f32(x) == from_f64(x as f64) (both are the rounding of the value).')
