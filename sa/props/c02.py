"""C02 - float -> posit: guard cells on the float bit pattern (R2)."""
from fractions import Fraction
import spec as S
from props.common import *

LEVEL = 'other'


def f2p_spec(pty, fmt):
    p = pty.posit

    def spec(xs):
        v = fmt.decode(xs[0])
        if isinstance(v, str):
            return p.nar
        return p.encode(v)
    return spec


def run(ctx):
    prog = ctx.prog('default')
    ctx.rules.append('R2 guarded-cell results on float bit-pattern cells')
    tot = 0
    for pty in PTYS:
        for fname, fmt in (('f32', S.F32), ('f64', S.F64)):
            path = anchor(ctx, prog, pty, 'from_' + fname)
            if not path:
                continue
            lits = lits_for(prog, path, fmt.bits, depth=1)
            import probes
            cells = cuts_to_cells(fmt.bits, lits)
            have = {c[0] for c in cells if c[0] == c[1]}
            cells += [c for c in probes.singles(probes.float_tie_probes(pty, fmt)) if c[0] not in have]
            st = run_cells(ctx, prog, 'GCR', '%s::from_%s' % (pty.name, fname), path,
                           lambda cell, fmt=fmt: [float_arg(fmt.bits, cell[0][0], cell[0][1], 0)], [cells],
                           f2p_spec(pty, fmt), pty.bits)
            tot += decided(st)
    ctx.require('C02 decided cells', tot, 100)
    ctx.undecided['general_path'] = 'bitround + max_k correction on the general path; from_f32(x) == from_f64(x as f64)'
    return LEVEL, ('+-0, NaN/inf, saturation thresholds (one ulp either side), +-1 for six conversions decided for every float bit pattern of each '
                   'control-determinate cell.')
