"""C17 - all spellings agree: forwarder wiring (R1), AssociatedQuire table, type aliases."""
from rules_forward import Forwarders

LEVEL = 'proof'

POSITS = ['p8e0::P8E0', 'p16e1::P16E1', 'p32e2::P32E2']
QUIRES = ['quire8::Q8E0', 'quire16::Q16E1', 'quire32::Q32E2']
ASSOC = {'p8e0::P8E0': 'quire8::Q8E0', 'p16e1::P16E1': 'quire16::Q16E1', 'p32e2::P32E2': 'quire32::Q32E2'}
ALIASES = {'P8': 'p8e0::P8E0', 'P16': 'p16e1::P16E1', 'P32': 'p32e2::P32E2',
           'Q8': 'quire8::Q8E0', 'Q16': 'quire16::Q16E1', 'Q32': 'quire32::Q32E2'}
TRAITS = ('core::ops::', 'core::convert::From', 'num_traits::', 'Quire')


def run(ctx):
    prog = ctx.prog('default')
    ctx.rules.append('R1 forwarder wiring: term of every trait-impl method == term of the expected inherent target on the same parameters')
    fw = Forwarders(ctx, prog, POSITS + QUIRES)

    def filt(tr, im):
        if not tr.startswith(TRAITS):
            return False
        # quire `+=` / `-=` operand spellings are C04's rule; generic-width impls are C13/C14's
        if 'PxE' in im['self'] or any('PxE' in str(a.get('ty', '')) for a in im['trait']['args']):
            return False
        if im['self'] in QUIRES and tr.startswith('core::ops::'):
            return False
        return True
    n = fw.run(filt)
    obligations = n
    discharged = n - len([f for f in ctx.findings if f.rule == 'R1'])
    # AssociatedQuire
    for p, q in ASSOC.items():
        obligations += 1
        ok = False
        for im in prog.impl_index.get(('AssociatedQuire', p), []):
            for it in im['items']:
                if it['name'] == 'Q' and it.get('ty') == q:
                    ok = True
        if ok:
            discharged += 1
        else:
            ctx.finding('R1', 'AssociatedQuire<%s>' % p, 'assoc-type', 'AssociatedQuire::Q of %s is not %s' % (p, q))
    # aliases
    amap = {a['path']: a['ty'] for a in prog.aliases}
    for a, t in ALIASES.items():
        obligations += 1
        if amap.get(a) == t:
            discharged += 1
        else:
            ctx.finding('R1', 'alias ' + a, 'alias', 'type alias %s resolves to %s, expected %s' % (a, amap.get(a), t))
    ctx.cov['obligations'] = obligations
    ctx.cov['discharged'] = discharged
    ctx.cov['checker_cmd'] = './check C17 --tier ' + ctx.tier
    ctx.count('forwarders_checked', n)
    ctx.require("C17 forwarders checked", n, 366)
    ctx.trusted += ['term normalisation (strip auto-ref/deref)', 'naming convention table + exception table in sa/rules_forward.py']
    ctx.notes.append('exempt (own control flow / no inherent counterpart): see EXEMPT in rules_forward.py; Float::max/min vs inherent max/min is decided in C10')
    return LEVEL, ('Every operator / From / num_traits / Quire trait method of the three posit and three quire types denotes exactly the expected '
                   'inherent target applied to its parameters in order (or the expected named constant); AssociatedQuire and the six aliases resolve to the concrete types.')
