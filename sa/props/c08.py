"""C08 - posit width conversions: zero/NaR and saturation cells (R2); widening exactness by bit routing (R7) is in rules_routing."""
import spec as S
from props.common import *
from aval import mask

LEVEL = 'proof'

PAIRS = [(P8, P16), (P8, P32), (P16, P32), (P16, P8), (P32, P8), (P32, P16)]
LOWER = {'P8E0': 'p8e0', 'P16E1': 'p16e1', 'P32E2': 'p32e2'}


def conv_spec(src, dst):
    def spec(xs):
        return dst.posit.encode(src.posit.decode(xs[0]))
    return spec


def run(ctx):
    prog = ctx.prog('default')
    ctx.rules.append('R2 guarded-cell results on source-format cells')
    tot = 0
    for src, dst in PAIRS:
        for name, pty_owner in (('from_' + LOWER[src.name], dst), ('to_' + LOWER[dst.name], src)):
            path = anchor(ctx, prog, pty_owner, name)
            if not path:
                continue
            lits = lits_for(prog, path, src.bits, depth=2)
            import probes
            cells = cuts_to_cells(src.bits, list(lits) + special_cuts(src))
            have = {c[0] for c in cells if c[0] == c[1]}
            extra = set(probes.posit_probes(src, 2))
            if dst.bits < src.bits:
                # narrowing: source encodings at, just below and just above the rounding midpoints of the target format
                pm = S.Posit(dst.bits + 1, dst.es)
                for u in probes.posit_probes(dst):
                    if 0 < u < dst.maxpos:
                        e = src.posit.encode(pm.decode(2 * u + 1))
                        extra |= {e, e + 1, e - 1, (-e) & mask(src.bits), (-(e + 1)) & mask(src.bits), (-(e - 1)) & mask(src.bits)}
            cells += [c for c in probes.singles(sorted(x & mask(src.bits) for x in extra)) if c[0] not in have]
            st = run_cells(ctx, prog, 'GCR', '%s::%s' % (pty_owner.name, name), path,
                           lambda cell, src=src: [posit_arg(src, cell[0][0], cell[0][1], 0)], [cells],
                           conv_spec(src, dst), dst.bits, exhaustive_limit=256 if src.bits == 8 else 0)
            tot += decided(st)
    import rules_routing
    ctx.rules.append('R7 bit routing equality per source regime cell for the three widening conversions')
    rc = rp = 0
    for src, dst in PAIRS[:3]:
        path = anchor(ctx, prog, dst, 'from_' + LOWER[src.name])
        if path:
            c, p_ = rules_routing.check_conversion(ctx, prog, 'R7', '%s::from_%s' % (dst.name, LOWER[src.name]), path, src, 'posit', dst)
            rc += c
            rp += p_
    ctx.require('C08 widening routing cells', rc, 162)
    ctx.count('widening_routing_cells_proved', rp)
    # widen-then-narrow is the identity: the narrowing code run on the routed (symbolic) widened value
    wc = wp = 0
    for src, dst in PAIRS[:3]:
        widen = anchor(ctx, prog, dst, 'from_' + LOWER[src.name])
        narrow = anchor(ctx, prog, src, 'from_' + LOWER[dst.name])
        if widen and narrow:
            c, p_ = rules_routing.float_round_trip(ctx, prog, src, LOWER[dst.name], to=widen, fr=narrow,
                                                   label='%s::from_%s(%s::from_%s)' % (src.name, LOWER[dst.name], dst.name, LOWER[src.name]))
            wc += c
            wp += p_
    ctx.count('widen_narrow_cells', wc)
    ctx.count('widen_narrow_cells_proved', wp)
    ctx.require('C08 widen-then-narrow cells', wc, 150)
    ctx.require('C08 decided cells', tot, 200)
    # R10: the three narrowing conversions on rounding cells of the source format (every non-zero real source pattern is in exactly one)
    import rules_rounding
    ctx.trusted += [t for t in rules_rounding.TRUSTED if t not in ctx.trusted]
    ctx.rules.append('R10 rounding cells: symbolic bit-vector result == correctly rounded encoding, per (sign, source regime, exponent, rounding case)')
    ncells = nproved = 0
    for src, dst in PAIRS:
        # both spellings of all six conversions (for the widening ones every cell is the `exact` case: same verdict as R7, independent code path in the checker)
        for name, owner in (('from_' + LOWER[src.name], dst), ('to_' + LOWER[dst.name], src)):
            path = prog.inherent(owner.tykey, name)
            if path:
                st = rules_rounding.check_posit_to_posit(ctx, prog, 'R10', '%s::%s' % (owner.name, name), path, src, dst, True)
                ncells += st['cells']
                nproved += st['proved']
    ctx.require('C08 rounding cells', ncells, 9000)
    complete = (ncells == nproved and rc == rp)
    ctx.cov['obligations'] = ncells + rc + wc
    ctx.cov['discharged'] = nproved + rp + wp
    ctx.cov['checker_cmd'] = './check C08 --tier ' + ctx.tier
    if not complete:
        ctx.notes.append('not every obligation was discharged in this run (%d/%d narrowing rounding cells, %d/%d widening routing cells): the verdict of this run is weaker than a proof'
                         % (nproved, ncells, rp, rc))
    ctx.undecided['general_path'] = 'nothing when all cells are proved; undecided cells are counted above'
    return ('proof' if complete else 'other'), ('Widening conversions proved exact for every bit pattern by bit-routing equality per regime cell (R7); widen-then-narrow is the identity; the three narrowing '
                   'conversions proved correctly rounded (nearest, ties to even encoding, saturating, never zero) for every non-zero real source pattern on rounding cells (R10); '
                   'both spellings (`from_*`, `to_*`) of each; zero/NaR preservation on interval cells (R2).')
