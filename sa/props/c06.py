"""C06 - sqrt guard cells (R2); P8E0 table (R4) is added by rules.tables"""
import spec as S
from fractions import Fraction
from props.common import *

LEVEL = 'other'


def sqrt_spec(pty):
    p = pty.posit

    def spec(xs):
        v = p.decode(xs[0])
        if v == S.NAR or v < 0:
            return p.nar
        if v == 0:
            return 0
        return S.isqrt_round(p, xs[0])
    return spec


def run(ctx):
    prog = ctx.prog('default')
    ctx.rules.append('R2 guarded-cell results (NaR, negatives, zero, literal cut points)')
    tot = 0
    for pty in PTYS:
        path = anchor(ctx, prog, pty, 'sqrt')
        if not path:
            continue
        lits = lits_for(prog, path, pty.bits, depth=1)
        import probes
        cells = cuts_to_cells(pty.bits, list(lits) + special_cuts(pty))
        have = {c[0] for c in cells if c[0] == c[1]}
        sq = [pty.posit.encode(Fraction(k * k)) for k in range(1, 12)] + [pty.posit.encode(Fraction(1, k * k)) for k in (2, 4, 8)]
        cells += [c for c in probes.singles(sorted(set(probes.posit_probes(pty) + sq))) if c[0] not in have and c[0] < pty.nar]
        st = run_cells(ctx, prog, 'GCR', '%s::sqrt' % pty.name, path,
                       lambda cell, pty=pty: [posit_arg(pty, cell[0][0], cell[0][1], 0)],
                       [cells], sqrt_spec(pty), pty.bits, exhaustive_limit=(256 if pty.bits == 8 else 0))
        tot += decided(st)
    # hard-to-round arguments of P32E2::sqrt: the significands (27 fraction bits, both exponent parities) whose exact root lies closest to a
    # rounding midpoint, computed once from the format definition alone (tools/gen_sqrt_hard.c -> sa/data/sqrt_hard_fb27.txt); decided singly.
    import os
    data = os.path.join(os.path.dirname(os.path.dirname(os.path.abspath(__file__))), 'data', 'sqrt_hard_fb27.txt')
    path = prog.inherent(P32.tykey, 'sqrt')
    if path and os.path.exists(data):
        pp = P32.posit
        pts = []
        rows = [l.split() for l in open(data) if l.strip()]
        if ctx.tier == 'quick':
            rows = rows[:150] + rows[400:550]
        for e_, X, d_ in rows:
            X = int(X)
            for base in (0, 2, -4, -2):
                v = Fraction(X, 1 << 27) * Fraction(2) ** (base + int(e_))
                u = pp.encode(v)
                if pp.decode(u) == v:
                    pts.append((u,))
        run_points(ctx, prog, 'GCR', 'P32E2::sqrt', path, P32, pts, sqrt_spec(P32))
        ctx.count('hard_case_points', len(pts))
    ctx.require('C06 decided cells', tot, 10)
    ctx.undecided['general_path'] = 'table + Newton-Raphson + final rounding of P16E1/P32E2 sqrt are not decided'
    return LEVEL, 'sqrt: NaR/negative/zero cells for three types by abstract interpretation; P8E0 fully decided by table agreement (R4).'
