"""C06 - sqrt guard cells (R2); P8E0 table (R4) is added by rules.tables"""
import spec as S
from fractions import Fraction
from props.common import *

LEVEL = 'other'


def sqrt_spec(pty):
    p = pty.posit

    def spec(xs):
        v = p.decode(xs[0])
        if v == S.NAR or v < 0:
            return p.nar
        if v == 0:
            return 0
        return S.isqrt_round(p, xs[0])
    return spec


def run(ctx):
    prog = ctx.prog('default')
    ctx.rules.append('R2 guarded-cell results (NaR, negatives, zero, literal cut points)')
    tot = 0
    for pty in PTYS:
        path = anchor(ctx, prog, pty, 'sqrt')
        if not path:
            continue
        lits = lits_for(prog, path, pty.bits, depth=1)
        import probes
        cells = cuts_to_cells(pty.bits, list(lits) + special_cuts(pty))
        have = {c[0] for c in cells if c[0] == c[1]}
        sq = [pty.posit.encode(Fraction(k * k)) for k in range(1, 12)] + [pty.posit.encode(Fraction(1, k * k)) for k in (2, 4, 8)]
        cells += [c for c in probes.singles(sorted(set(probes.posit_probes(pty) + sq))) if c[0] not in have and c[0] < pty.nar]
        st = run_cells(ctx, prog, 'GCR', '%s::sqrt' % pty.name, path,
                       lambda cell, pty=pty: [posit_arg(pty, cell[0][0], cell[0][1], 0)],
                       [cells], sqrt_spec(pty), pty.bits, exhaustive_limit=(256 if pty.bits == 8 else 0))
        tot += decided(st)
    # hard-to-round arguments of P32E2::sqrt: the significands (27 fraction bits, both exponent parities) whose exact root lies closest to a
    # rounding midpoint, computed once from the format definition alone (tools/gen_sqrt_hard.c -> sa/data/sqrt_hard_fb27.txt); decided singly.
    import os
    data = os.path.join(os.path.dirname(os.path.dirname(os.path.abspath(__file__))), 'data', 'sqrt_hard_fb27.txt')
    path = prog.inherent(P32.tykey, 'sqrt')
    if path and os.path.exists(data):
        pp = P32.posit
        pts = []
        rows = [l.split() for l in open(data) if l.strip()]
        if ctx.tier == 'quick':
            rows = rows[:150] + rows[400:550]
        for e_, X, d_ in rows:
            X = int(X)
            for base in (0, 2, -4, -2):
                v = Fraction(X, 1 << 27) * Fraction(2) ** (base + int(e_))
                u = pp.encode(v)
                if pp.decode(u) == v:
                    pts.append((u,))
        run_points(ctx, prog, 'GCR', 'P32E2::sqrt', path, P32, pts, sqrt_spec(P32))
        ctx.count('hard_case_points', len(pts))
    # (a) P16E1::sqrt on *every* non-negative encoding, singly (2^15 singleton cells; the negative half is one cell above): together with the
    #     interval cells this decides P16E1::sqrt for all 2^16 patterns, Newton-Raphson path included.
    # (b) P32E2::sqrt next to the edges and the middle of every bin of its reciprocal-root table - where the residual of a piecewise-linear
    #     seed peaks, so where an error-budget regression of the iteration shows first - on the hardest-to-round arguments there
    #     (tools/gen_sqrt_hard.c, mode "edges": bins = top 3 fraction bits x parity, as read off the index expression; windows of 2^19).
    jobs = []
    p16 = prog.inherent(P16.tykey, 'sqrt')
    if p16:
        jobs.append(dict(rule='GCR', label='P16E1::sqrt', path=p16, pty=P16, points=[(u,) for u in range(1, 0x8000)], spec=sqrt_spec(P16)))
    edges = os.path.join(os.path.dirname(data), 'sqrt_hard_edges_fb27.txt')
    if path and os.path.exists(edges):
        pp = P32.posit
        K, keep, bases = 512, (192 if ctx.tier == 'quick' else 512), ((0, -2) if ctx.tier == 'quick' else (0, 2, -4, -2))
        pts = set()
        for i, l in enumerate(open(edges)):
            if i % K >= keep:
                continue
            e_, X, d_ = l.split()
            for base in bases:
                v = Fraction(int(X), 1 << 27) * Fraction(2) ** (base + int(e_))
                u = pp.encode(v)
                if pp.decode(u) == v:
                    pts.add((u,))
        pts = sorted(pts)
        jobs.append(dict(rule='GCR', label='P32E2::sqrt', path=path, pty=P32, points=pts, spec=sqrt_spec(P32)))
        ctx.count('bin_edge_hard_case_points', len(pts))
    if jobs:
        n = run_points_parallel(ctx, prog, jobs, chunk=800)
        ctx.count('singleton_points_decided_in_workers', n)
        if p16:
            ctx.count('p16_sqrt_encodings_decided_singly', 0x7fff)
        ctx.rules.append('singleton cells: P16E1::sqrt on every non-negative encoding; P32E2::sqrt on the hardest-to-round arguments overall and next to the edges / middle of every table bin')
    ctx.require('C06 decided cells', tot, 10)
    ctx.undecided['general_path'] = 'Newton-Raphson + final rounding of P32E2::sqrt between the probed arguments are not decided (P16E1::sqrt is decided for every encoding by enumeration, P8E0::sqrt by its table)'
    return LEVEL, ('sqrt: NaR/negative/zero cells for three types by abstract interpretation; P8E0 fully decided by table agreement (R4); P16E1 decided on every '
                   'encoding singly; P32E2 on hard-to-round arguments (overall and per table-bin edge).')
