"""C06 - sqrt guard cells (R2); P8E0 table (R4) is added by rules.tables"""
import spec as S
from fractions import Fraction
from props.common import *

LEVEL = 'other'


def sqrt_spec(pty):
    p = pty.posit

    def spec(xs):
        v = p.decode(xs[0])
        if v == S.NAR or v < 0:
            return p.nar
        if v == 0:
            return 0
        return S.isqrt_round(p, xs[0])
    return spec


def run(ctx):
    prog = ctx.prog('default')
    ctx.rules.append('R2 guarded-cell results (NaR, negatives, zero, literal cut points)')
    tot = 0
    for pty in PTYS:
        path = anchor(ctx, prog, pty, 'sqrt')
        if not path:
            continue
        lits = lits_for(prog, path, pty.bits, depth=1)
        import probes
        cells = cuts_to_cells(pty.bits, list(lits) + special_cuts(pty))
        have = {c[0] for c in cells if c[0] == c[1]}
        sq = [pty.posit.encode(Fraction(k * k)) for k in range(1, 12)] + [pty.posit.encode(Fraction(1, k * k)) for k in (2, 4, 8)]
        cells += [c for c in probes.singles(sorted(set(probes.posit_probes(pty) + sq))) if c[0] not in have and c[0] < pty.nar]
        st = run_cells(ctx, prog, 'GCR', '%s::sqrt' % pty.name, path,
                       lambda cell, pty=pty: [posit_arg(pty, cell[0][0], cell[0][1], 0)],
                       [cells], sqrt_spec(pty), pty.bits, exhaustive_limit=(256 if pty.bits == 8 else 0))
        tot += decided(st)
    ctx.require('C06 decided cells', tot, 10)
    ctx.undecided['general_path'] = 'table + Newton-Raphson + final rounding of P16E1/P32E2 sqrt are not decided'
    return LEVEL, 'sqrt: NaR/negative/zero cells for three types by abstract interpretation; P8E0 fully decided by table agreement (R4).'
