"""C09 - round, floor, ceil, trunc, fract (guard cells; R2)."""
from fractions import Fraction
import spec as S
import gcr
from gcr import PTYS, posit_arg, collect_literals, cuts_to_cells, run_cells, DECODE_HELPERS

LEVEL = 'other'


def mkspec(pty, f):
    p = pty.posit

    def spec(xs):
        v = p.decode(xs[0])
        if v == S.NAR:
            return p.nar
        return p.encode(f(v))
    return spec


FUNCS = {
    'round': S.round_ne,
    'floor': S.floor_,
    'ceil': S.ceil_,
    'trunc': S.trunc_,
    'fract': lambda v: v - S.trunc_(v),
}


def run(ctx):
    prog = ctx.prog('default')
    ctx.rules.append('R2 guarded-cell results: determinate abstract interpretation per input cell vs exact spec at witnesses')
    total_decided = 0
    for pty in PTYS:
        for name, f in FUNCS.items():
            path = prog.inherent(pty.tykey, name)
            if not path:
                ctx.finding('ANCHOR', '%s::%s' % (pty.name, name), 'missing', 'public function not found')
                continue
            lits = collect_literals(prog, path, depth=2, skip=DECODE_HELPERS)
            lits = {l for l in lits if 0 <= l < (1 << pty.bits)}
            import probes
            cells = cuts_to_cells(pty.bits, lits)
            have = {c[0] for c in cells if c[0] == c[1]}
            cells += [c for c in probes.singles(probes.posit_probes(pty, 2 if ctx.tier == 'thorough' else 1)) if c[0] not in have]
            st = run_cells(ctx, prog, 'GCR', '%s::%s' % (pty.name, name), path,
                           lambda cell, pty=pty: [posit_arg(pty, cell[0][0], cell[0][1], 0)],
                           [cells], mkspec(pty, f), pty.bits)
            total_decided += st['decided_const'] + st['decided_id'] + st['decided_neg']
    ctx.undecided['general_path'] = ('mask arithmetic of the decoded middle range (cells whose result is not a constant / the argument) '
                                     'and exactness of the subtraction in fract are not decided by this technique')
    ctx.require('C09 decided cells', total_decided, ctx_floor(ctx))
    return LEVEL, ('Each of the 15 functions is abstractly interpreted (MIR, interval x known-bits x term domain) on a partition of all '
                   'bit patterns cut at every literal of its body; on control-determinate cells the result (constant, x, -x) holds for '
                   'every input of the cell and is compared with the exact specification at witness points.')


def ctx_floor(ctx):
    return 150
