"""C09 - round, floor, ceil, trunc, fract (guard cells; R2)."""
from fractions import Fraction
import spec as S
import gcr
from gcr import PTYS, posit_arg, collect_literals, cuts_to_cells, run_cells, DECODE_HELPERS

LEVEL = 'other'


def mkspec(pty, f):
    p = pty.posit

    def spec(xs):
        v = p.decode(xs[0])
        if v == S.NAR:
            return p.nar
        return p.encode(f(v))
    return spec


FUNCS = {
    'round': S.round_ne,
    'floor': S.floor_,
    'ceil': S.ceil_,
    'trunc': S.trunc_,
    'fract': lambda v: v - S.trunc_(v),
}


def run(ctx):
    prog = ctx.prog('default')
    ctx.rules.append('R2 guarded-cell results: determinate abstract interpretation per input cell vs exact spec at witnesses')
    total_decided = 0
    for pty in PTYS:
        for name, f in FUNCS.items():
            path = prog.inherent(pty.tykey, name)
            if not path:
                ctx.finding('ANCHOR', '%s::%s' % (pty.name, name), 'missing', 'public function not found')
                continue
            lits = collect_literals(prog, path, depth=2, skip=DECODE_HELPERS)
            lits = {l for l in lits if 0 <= l < (1 << pty.bits)}
            import probes
            cells = cuts_to_cells(pty.bits, lits)
            have = {c[0] for c in cells if c[0] == c[1]}
            cells += [c for c in probes.singles(probes.posit_probes(pty, 2 if ctx.tier == 'thorough' else 1)) if c[0] not in have]
            st = run_cells(ctx, prog, 'GCR', '%s::%s' % (pty.name, name), path,
                           lambda cell, pty=pty: [posit_arg(pty, cell[0][0], cell[0][1], 0)],
                           [cells], mkspec(pty, f), pty.bits)
            total_decided += st['decided_const'] + st['decided_id'] + st['decided_neg']
    ctx.require('C09 decided cells', total_decided, ctx_floor(ctx))
    # R10: round / floor / ceil / trunc on rounding cells at the units position (every non-zero real pattern is in exactly one cell)
    import rules_rounding
    ctx.trusted += [t for t in rules_rounding.TRUSTED if t not in ctx.trusted]
    from aval import AInt, AAgg
    from interp import Interp
    from symeval import SymEval, strip_refs
    ctx.rules.append('R10 rounding cells at the units position: (sign, regime, exponent, rounding case); result vector == encoding of the rounded integer')
    ncells = nproved = 0
    spec_ok = spec_n = 0
    I = Interp(prog)
    se = SymEval(prog)
    wired = 0
    for pty in PTYS:
        for name in ('round', 'floor', 'ceil', 'trunc'):
            path = prog.inherent(pty.tykey, name)
            if not path:
                continue
            st = rules_rounding.check_posit_round_fn(ctx, prog, 'R10', '%s::%s' % (pty.name, name), path, pty, name, FUNCS[name], True)
            ncells += st['cells']
            nproved += st['proved']
        for name in FUNCS:
            path = prog.inherent(pty.tykey, name)
            if not path:
                continue
            for bits_, want in ((0, 0), (pty.posit.nar, pty.posit.nar)):
                spec_n += 1
                sv = bits_ - (1 << pty.bits) if bits_ >> (pty.bits - 1) else bits_
                o = I.run(path, [AAgg(pty.tykey, [AInt.const(pty.bits, True, sv)])])
                r = rules_rounding.result_int(o.value) if o.kind == 'return' else None
                if r is not None and r.is_const():
                    if r.uval() == want:
                        spec_ok += 1
                    else:
                        ctx.finding('R10', '%s::%s' % (pty.name, name), 'special:%#x' % bits_, '%s(%#x) returns %#x, expected %#x' % (name, bits_, r.uval(), want), {'function': path})
        # fract is `self - self.trunc()`: wiring proved here; its exactness is the exactness of the posit subtraction of two values whose
        # difference is representable (C01, assumed)
        fp, sp_, tp = prog.inherent(pty.tykey, 'fract'), prog.inherent(pty.tykey, 'sub'), prog.inherent(pty.tykey, 'trunc')
        if fp and sp_ and tp:
            r = se.run(fp)
            got = strip_refs(r['ret']) if r else None
            want = ('app', sp_, '', (('arg', 0), ('app', tp, '', (('arg', 0),))))
            if got == want:
                wired += 1
            elif got is not None:
                # another spelling: decided only on the R2 cells above
                ctx.notes.append('%s::fract is not spelled `self.sub(self.trunc())` (term %s): only the R2 cells apply' % (pty.name, str(got)[:120]))
    ctx.count('special_cells', spec_n)
    ctx.count('special_cells_decided', spec_ok)
    ctx.count('fract_wiring_proved', wired)
    ctx.require('C09 rounding cells', ncells, 9000)
    complete = ncells == nproved and spec_ok == spec_n
    if not complete:
        ctx.notes.append('not every obligation was discharged in this run (%d/%d rounding cells, %d/%d zero/NaR cells)' % (nproved, ncells, spec_ok, spec_n))
    ctx.undecided['general_path'] = ('round/floor/ceil/trunc: nothing when all cells are proved. fract: proved to be `self - trunc(self)`; that this subtraction is exact is C01 '
                                     '(posit subtraction correctly rounded; the difference is representable), which this check assumes and does not decide')
    return LEVEL, ('round, floor, ceil and trunc of the three types are proved for every bit pattern: each non-zero real pattern lies in a rounding cell (sign, regime, exponent, rounding situation at the '
                   'units position; other fraction bits symbolic) on which the returned vector is the encoding of the specified integer; zero and NaR separately; the guard layer additionally on interval cells (R2). '
                   'fract is proved to be self - trunc(self) (exactness of that subtraction assumed from C01).')


def ctx_floor(ctx):
    return 150
