"""C16 - totality and build-profile independence.

(1) Totality sweep: every public function / trait method whose parameters are posits, generic-width posits, quires, integers or floats is
    abstractly interpreted on a partition of its inputs (special values + literal cut points).  A cell on which the run *determinately*
    reaches a panic, a failing overflow/bounds/shift assertion or exceeds the loop budget is a violation for every input of the cell
    (keyed by the failing site).  Whole-body `todo!()` stubs and the `clamp` contract assertion are exempt by name.
(2) Decode precondition (R3) and table bounds (R4) in may-mode: every call of a regime-scan helper must be reached with a word that excludes 0
    and the sign mask; every constant-table index must be in bounds (path-sensitive proof, counted; refutations are violations).
(3) Profile independence: the MIR of an overflow-checked debug build and of a `-C overflow-checks=off -C debug-assertions=off` build must be
    identical after removing the overflow assertions - no `debug_assert!`, no `cfg!(debug_assertions)`, no profile-dependent code.
"""
from interp import site_key, short_fn, entry_label
import itertools
import re
import collections

from aval import AInt, AAgg, AFloat, ARef, ATop, mask, to_signed
from interp import Interp, _static_frame
import gcr
from gcr import P8, P16, P32, cuts_to_cells, collect_literals, DECODE_HELPERS, fmt_cell
from quire_common import Q8, Q16, Q32
from props.pxe_common import PX1, PX2, QUICK_N, ALL_N
import rules_units

LEVEL = 'other'

POSITS = {'p8e0::P8E0': P8, 'p16e1::P16E1': P16, 'p32e2::P32E2': P32}
QUIRES = {'quire8::Q8E0': Q8, 'quire16::Q16E1': Q16, 'quire32::Q32E2': Q32}
PXS = {'pxe1::PxE1<N>': PX1, 'pxe2::PxE2<N>': PX2, 'pxe1::PxE1<M>': PX1, 'pxe2::PxE2<M>': PX2}
INT_RE = re.compile(r'^([iu])(8|16|32|64|128|size)$')

EXEMPT_FUNCS = {
    'clamp': 'assert!(min <= max) is the documented core-style contract of clamp',
}


def is_stub(body):
    t = body['blocks'][0]['term']
    return t['t'] == 'call' and (t['callee'].get('resolved') or t['callee'].get('orig') or '').startswith('core::panicking')


def posit_cells(pty, lits, cap):
    base = [0, pty.nar, pty.one, pty.maxpos, 1]
    cells = cuts_to_cells(pty.bits, list(lits) + base)
    if len(cells) > cap:
        cells = cuts_to_cells(pty.bits, base)
    if len(cells) > cap:
        cells = [(0, 0), (1, pty.one - 1), (pty.one, pty.one), (pty.one + 1, pty.maxpos), (pty.nar, pty.nar), (pty.nar + 1, mask(pty.bits))]
    return cells


class ArgSpace:
    """cells and abstract-value builders for one parameter type"""

    def __init__(self, prog, tykey, lits, cap, n=None, idx=0):
        self.ok = True
        self.cells = []
        self.kind = None
        self.tykey = tykey
        self.prog = prog
        self.idx = idx
        t = prog.types.get(tykey) or {}
        base = tykey
        self.ref = None
        if t.get('k') == 'ref':
            self.ref = 'mut' if t['mut'] else 'shared'
            base = t['to']
        self.base = base
        if base in POSITS:
            self.kind = 'posit'
            self.pty = POSITS[base]
            self.cells = posit_cells(self.pty, {l for l in lits if 0 <= l < (1 << self.pty.bits)}, cap)
        elif base in PXS and n is not None:
            self.kind = 'px'
            self.xty = PXS[base]
            self.n = n
            nar, one = 1 << (n - 1), 1 << (n - 2)
            pts = sorted(x for x in {0, 1, one, nar - 1, nar, nar + 1, mask(n), (nar | one)} if 0 <= x < (1 << n))
            self.cells = cuts_to_cells(n, pts)
            if len(self.cells) > cap:
                self.cells = [c for c in self.cells if c[0] == c[1]][:cap]
        elif base in QUIRES:
            self.kind = 'quire'
            self.q = QUIRES[base]
            full = [(0, mask(b)) for b, _ in self.q.fields]
            b0 = self.q.fields[0][0]
            sb = 1 << (b0 - 1)
            self.cells = [self.q.zero_cell(), self.q.nar_cell(), ((1, sb - 1),) + tuple(full[1:]), ((sb + 1, mask(b0)),) + tuple(full[1:])]
        elif INT_RE.match(base):
            m = INT_RE.match(base)
            self.kind = 'int'
            self.bits = 64 if m.group(2) == 'size' else int(m.group(2))
            self.signed = m.group(1) == 'i'
            ls = {l & mask(self.bits) for l in lits if -(1 << self.bits) < l < (1 << self.bits)}
            self.cells = cuts_to_cells(self.bits, ls)
            if len(self.cells) > cap:
                self.cells = cuts_to_cells(self.bits, [0, 1, 2])
        elif base in ('f32', 'f64'):
            self.kind = 'float'
            self.bits = 32 if base == 'f32' else 64
            eb = 8 if self.bits == 32 else 11
            mb = self.bits - 1 - eb
            inf = ((1 << eb) - 1) << mb
            one = ((1 << (eb - 1)) - 1) << mb
            sgn = 1 << (self.bits - 1)
            pts = {0, 1, sgn, sgn | 1, inf, inf | 1, sgn | inf, one, sgn | one, inf - 1, (1 << mb), mask(self.bits)}
            ls = {l for l in lits if 0 <= l < (1 << self.bits)}
            self.cells = cuts_to_cells(self.bits, list(pts | ls), signed_boundary=True)
            if len(self.cells) > cap:
                self.cells = cuts_to_cells(self.bits, list(pts), signed_boundary=True)
        elif base == 'bool':
            self.kind = 'bool'
            self.cells = [(0, 0), (1, 1)]
        elif t.get('k') == 'tuple' and t['elems'] and all(e in POSITS for e in t['elems']) and len(t['elems']) <= 2:
            self.kind = 'ptuple'
            self.ptys = [POSITS[e] for e in t['elems']]
            per = [posit_cells(p, (), 6) for p in self.ptys]
            self.cells = list(itertools.product(*per))
        elif t.get('k') == 'adt' and t.get('adt') == 'enum' and t.get('variants') and all(not v['fields'] for v in t['variants']):
            self.kind = 'enum'
            self.cells = [(i, i) for i in range(len(t['variants']))]
        else:
            self.ok = False

    def value(self, cell):
        k = self.kind
        if k == 'posit':
            v = gcr.posit_arg(self.pty, cell[0], cell[1], self.idx)
        elif k == 'px':
            from props.pxe_common import px_arg
            v = px_arg(self.xty, self.n, cell[0], cell[1], self.idx, self.base)
        elif k == 'quire':
            v = self.q.state(cell, base=100 * (self.idx + 1))
        elif k == 'int':
            lo, hi = cell
            if self.signed:
                lo, hi = to_signed(lo, self.bits), to_signed(hi, self.bits)
            v = AInt(self.bits, self.signed, lo, hi)
        elif k == 'float':
            v = AFloat(self.bits, AInt(self.bits, False, cell[0], cell[1]))
        elif k == 'bool':
            v = AInt.boolean(bool(cell[0]))
        elif k == 'ptuple':
            v = AAgg(self.base, [gcr.posit_arg(p, c[0], c[1], self.idx) for p, c in zip(self.ptys, cell)])
        elif k == 'enum':
            v = AAgg(self.base, [], cell[0])
        else:
            raise ValueError(k)
        if self.ref:
            return ARef(_static_frame(v), 0, [], self.ref == 'mut')
        return v


def sweep_function(ctx, prog, path, body, n=None, budget_cells=700):
    nargs = body['arg_count']
    lits = collect_literals(prog, path, depth=1, skip=DECODE_HELPERS)
    cap = {0: 1, 1: 40, 2: 12, 3: 6}.get(nargs, 4)
    spaces = []
    for i in range(nargs):
        sp = ArgSpace(prog, body['locals'][i + 1]['ty'], lits, cap, n=n, idx=i)
        if not sp.ok or not sp.cells:
            return None
        spaces.append(sp)
    prod = 1
    for sp in spaces:
        prod *= len(sp.cells)
    while prod > budget_cells:
        big = max(spaces, key=lambda s_: len(s_.cells))
        if len(big.cells) <= 3:
            break
        big.cells = [c for c in big.cells if c[0] == c[1] or big.kind in ('quire', 'ptuple')][:max(3, len(big.cells) // 2)] or big.cells[:3]
        prod = 1
        for sp in spaces:
            prod *= len(sp.cells)
    genv = {}
    for g in body.get('generics', []):
        if g['kind'] == 'const' and n is not None:
            genv[g['name']] = n
    I = Interp(prog, max_steps=30000)
    stats = collections.Counter()
    name = body['name'] or ''
    for cell in itertools.product(*[sp.cells for sp in spaces]):
        stats['cells'] += 1
        try:
            args = [sp.value(c) for sp, c in zip(spaces, cell)]
            out = I.run(path, args, genv)
        except Exception as e:
            stats['unsupported'] += 1
            continue
        stats[out.kind] += 1
        if out.kind == 'panic':
            site = getattr(out, 'site', None)
            if site and site[1] == 'explicit':
                sb = prog.bodies.get(site[0])
                if sb is not None and is_stub(sb):
                    stats['stub_reached'] += 1
                    continue
                fn = site[0].rsplit('::', 1)[-1]
                if fn in EXEMPT_FUNCS:
                    stats['contract_exempt'] += 1
                    continue
            if site:
                ctx.finding('PANIC', *site_key(site),
                            '%s at %s: reached with every input of cell %s of %s%s; the operation does not return normally%s'
                            % (out.value, out.where, str(cell).replace(' ', '')[:120], path, (' [N=%d]' % n) if n else '',
                               '' if site[1] == 'explicit' else ' in an overflow-checked build'),
                            {'entry': path, 'cell': str(cell), 'N': n}, alt=('PANIC@', short_fn(path), site_key(site)[1]))
            else:
                ctx.finding('PANIC', path, 'panic', '%s at %s on cell %s' % (out.value, out.where, str(cell)[:120]))
        elif out.kind == 'budget':
            ctx.finding('LOOP', path, 'budget', 'no termination within the step budget on cell %s (determinate loop): %s' % (str(cell)[:120], out.where),
                        {'entry': path, 'cell': str(cell), 'N': n})
    return stats


def profile_diff(ctx):
    """(3): semantic item multiset of every body must not depend on the build profile (except overflow assertions)"""
    import framework
    import os
    import subprocess
    import tempfile
    import json
    here = os.path.dirname(os.path.dirname(os.path.abspath(__file__)))
    tmp = tempfile.mkdtemp(prefix='verif_rel.')
    out = os.path.join(tmp, 'facts_rel.json')
    env = dict(os.environ)
    env['VERIF_RUSTFLAGS_OVERRIDE'] = '-Zmir-opt-level=0 -Coverflow-checks=off -Cdebug-assertions=off -Awarnings'
    r = subprocess.run([os.path.join(here, 'extract.sh'), out, 'release-like'], env=env, stdout=subprocess.PIPE, stderr=subprocess.STDOUT, text=True)
    if r.returncode != 0:
        ctx.finding('PROFILE', 'extraction', 'release-like', 'the crate does not build with overflow checks and debug assertions off: %s' % r.stdout[-300:])
        return 0
    from interp import Program
    rel = Program(out)
    import shutil
    shutil.rmtree(tmp, ignore_errors=True)
    dbg = ctx.prog('default')

    def items(body):
        c = collections.Counter()
        for blk in body['blocks']:
            for st in blk['stmts']:
                if st['s'] == 'assign':
                    rv = st['rvalue']
                    if rv['rv'] == 'bin':
                        c['bin:' + rv['op'].replace('WithOverflow', '')] += 1
                    elif rv['rv'] == 'un':
                        c['un:' + rv['op']] += 1
                    elif rv['rv'] == 'cast':
                        c['cast:' + rv['kind']] += 1
                    elif rv['rv'] in ('agg', 'discr', 'ref'):
                        c[rv['rv']] += 1
            t = blk['term']
            if t['t'] == 'call':
                c['call:' + (t['callee'].get('resolved') or t['callee'].get('orig') or '?')] += 1
            elif t['t'] == 'switch':
                c['switch'] += 1
            elif t['t'] == 'assert':
                if not t['kind'].startswith('Overflow'):
                    c['assert:' + t['kind']] += 1
        return c
    n = 0
    for path, b in dbg.bodies.items():
        rb = rel.bodies.get(path)
        if rb is None:
            ctx.finding('PROFILE', path, 'missing', 'function exists only in the debug-profile build')
            continue
        n += 1
        a, r_ = items(b), items(rb)
        # overflow-checked arithmetic adds comparison/negation scaffolding for shifts and negation: ignore Lt/Eq/Not counts produced only for assertions
        for k in list(a):
            if k in ('bin:Lt', 'bin:Eq', 'un:Not', 'bin:BitAnd', 'cast:IntToInt', 'bin:Ne'):
                a.pop(k, None)
                r_.pop(k, None)
        for k in list(r_):
            if k in ('bin:Lt', 'bin:Eq', 'un:Not', 'bin:BitAnd', 'cast:IntToInt', 'bin:Ne'):
                r_.pop(k, None)
        if a != r_:
            d = (a - r_) + (r_ - a)
            ctx.finding('PROFILE', path, 'differs', 'the function body depends on the build profile beyond overflow checks: %s' % dict(d))
    for path in rel.bodies:
        if path not in dbg.bodies:
            ctx.finding('PROFILE', path, 'missing', 'function exists only in the release-like build')
    return n


def decode_obligations(ctx, prog, tier):
    """(2) R3 / R4 in may-mode on the fixed-width types: count proved / refuted / undecided call sites"""
    from rules_units import decoder_of
    targets = []
    for tykey, pty in POSITS.items():
        for name in ('add', 'sub', 'mul', 'div', 'sqrt', 'mul_add', 'round', 'floor', 'ceil', 'to_f64', 'to_f32', 'to_i32', 'to_u32', 'to_i64', 'to_u64',
                     'from_p8e0', 'from_p16e1', 'from_p32e2'):
            p_ = prog.inherent(tykey, name)
            if p_:
                targets.append((pty, name, p_))
    proved = refuted = undec = 0
    for pty, name, path in targets:
        body = prog.bodies[path]
        nargs = body['arg_count']
        obs = []

        def observer(frame, t, cpath, rargs, args, obs=obs):
            d = decoder_of(cpath)
            if d is None and not cpath.endswith('::calculate_scale'):
                return
            a = args[0]
            if isinstance(a, AInt):
                obs.append((frame.body['path'], t['span'], cpath, a))
        I = Interp(prog, max_steps=60000)
        I.call_observer = observer

        def mk(body=body, nargs=nargs):
            out = []
            for i in range(nargs):
                tk = body['locals'][i + 1]['ty']
                if tk in POSITS:
                    p = POSITS[tk]
                    out.append(AAgg(tk, [AInt(p.bits, True)]))
                else:
                    out.append(I.top_of(tk, {}))
            return out
        try:
            outs, complete = I.explore(path, mk, max_paths=300 if tier == 'quick' else 3000)
        except Exception as e:
            ctx.undecided.setdefault('R3-unsupported', []).append('%s::%s: %s' % (pty.name, name, e))
            continue
        sites = {}
        for fn, span, cpath, a in obs:
            w = a.bits
            sm = 1 << (w - 1)
            okz = a.lo > 0 if not a.signed else (a.lo > 0 or a.hi < 0)
            oks = (a.hi < sm or a.lo > sm) if not a.signed else (a.lo > -(1 << (w - 1)))
            key = (fn, cpath)
            cur = sites.get(key, True)
            sites[key] = cur and okz and oks
        for key, ok in sites.items():
            if ok and complete:
                proved += 1
                ctx.sample({'rule': 'R3', 'entry': '%s::%s' % (pty.name, name), 'call': key[1], 'in': key[0], 'argument_excludes': '0 and sign mask on all %d paths' % len(outs)}, limit=5)
            else:
                undec += 1
        for o in outs:
            if o.kind == 'panic' and getattr(o, 'site', None) and o.site[1].startswith('BoundsCheck'):
                refuted += 1
    ctx.count('R3_call_sites_proved', proved)
    ctx.count('R3_call_sites_undecided', undec)
    return proved


def run(ctx):
    prog = ctx.prog('default')
    ctx.rules += ['totality sweep: determinate panic / failing assertion / loop-budget events on input cells of every public function (site-keyed)',
                  'R3 decode precondition in may-mode (counted)', 'profile diff: debug-profile MIR vs release-like MIR modulo overflow assertions']
    tot = collections.Counter()
    nfun = skipped = stubs = 0
    NS = [2, 3, 8, 31, 32] if ctx.tier == 'quick' else ALL_N
    for path, body in sorted(prog.bodies.items()):
        if not body.get('reachable') or body['defkind'] == 'Closure':
            continue
        tys = [body['locals'][i + 1]['ty'] for i in range(body['arg_count'])]
        involved = [t for t in tys + [body['locals'][0]['ty']] if any(k in t for k in ('P8E0', 'P16E1', 'P32E2', 'PxE1', 'PxE2', 'Q8E0', 'Q16E1', 'Q32E2'))]
        if not involved:
            continue
        if is_stub(body):
            stubs += 1
            continue
        generic = any(g['kind'] == 'const' for g in body.get('generics', []))
        if any(g['kind'] == 'type' for g in body.get('generics', [])):
            skipped += 1
            continue
        runs = NS if generic else [None]
        done = False
        for n in runs:
            st = sweep_function(ctx, prog, path, body, n=n)
            if st is None:
                break
            done = True
            tot.update(st)
        if done:
            nfun += 1
        else:
            skipped += 1
    for k, v in tot.items():
        ctx.count('sweep_' + k, v)
    ctx.count('functions_swept', nfun)
    ctx.count('functions_not_analysable', skipped)
    ctx.count('whole_body_stubs_exempt', stubs)
    ctx.require('C16 functions swept', nfun, 700)
    decode_obligations(ctx, prog, ctx.tier)
    np = profile_diff(ctx)
    ctx.require('C16 bodies profile-compared', np, 1000)
    ctx.undecided['overflow_assertions'] = ('the overflow / shift assertions of the general arithmetic paths (about 2800 in a checked build) are not discharged; only determinate '
                                            'failures on the explored cells are reported')
    ctx.notes.append('exempt: whole-body todo!() stubs (counted), clamp contract assertion; conventions for NaR in to_* are irrelevant to totality')
    return LEVEL, ('Every analysable public function is swept on a partition of its inputs for determinate panics, failing assertions and non-termination (site-keyed findings); '
                   'decoder preconditions proved path-sensitively where the budget allows; the function bodies are identical across build profiles up to overflow assertions.')
