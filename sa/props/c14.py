"""C14 - generic-width conversions: zero/NaR preservation, saturation / N == 2 cells, integer heads per N (R2); to_f64 routing (R7)."""
from fractions import Fraction
from interp import site_key
import spec as S
import gcr
from gcr import P8, P16, P32, posit_arg, int_arg, run_cells, cuts_to_cells
from props.pxe_common import *
from props.common import decided, lits_for, special_cuts
from aval import mask, to_signed, AFloat
import rules_routing

LEVEL = 'other'
FIXED = {'p8e0': P8, 'p16e1': P16, 'p32e2': P32}
INTS = {'i32': (32, True), 'u32': (32, False), 'i64': (64, True), 'u64': (64, False)}


def run(ctx):
    prog = ctx.prog('default')
    ctx.rules += ['R2 guarded-cell results per bound N (and per (M, N) pair for generic-to-generic)', 'R7 to_f64 bit routing per regime cell (thorough tier: every N)']
    tot = 0
    NS = ns(ctx)
    for xty in XTYS:
        other = PX1 if xty is PX2 else PX2
        for n in NS:
            px = xty.px(n)
            g = {'N': n}
            sh = shifter(n, 1)
            L = lambda nm: '%s::%s' % (xty.name, nm)
            # fixed -> generic
            for fname, src in FIXED.items():
                path = prog.inherent(xty.tykey, 'from_' + fname)
                if not path:
                    ctx.finding('ANCHOR', L('from_' + fname), 'missing', 'function not found')
                    continue
                cells = cuts_to_cells(src.bits, list(lits_for(prog, path, src.bits, depth=1)) + special_cuts(src))
                if len(cells) > 80:
                    cells = cuts_to_cells(src.bits, special_cuts(src))
                st = run_cells(ctx, prog, 'GCR', '%s<%d>::from_%s' % (xty.name, n, fname), path,
                               lambda cell, src=src: [posit_arg(src, cell[0][0], cell[0][1], 0)], [cells],
                               lambda xs, src=src, px=px: px.encode(src.posit.decode(xs[0])), 32, gargs=g, key_label=L('from_' + fname))
                tot += decided(st)
            # generic -> fixed
            for fname, dst in FIXED.items():
                path = prog.inherent(xty.tykey, 'to_' + fname)
                if not path:
                    ctx.finding('ANCHOR', L('to_' + fname), 'missing', 'function not found')
                    continue
                cells = p_cells(prog, path, n, depth=2)
                st = run_cells(ctx, prog, 'GCR', '%s<%d>::to_%s' % (xty.name, n, fname), path,
                               lambda cell, n=n, xty=xty: [px_arg(xty, n, cell[0][0], cell[0][1], 0)], [cells],
                               lambda xs, dst=dst, px=px: dst.posit.encode(px.decode(xs[0])), dst.bits, gargs=g, flat=sh, key_label=L('to_' + fname))
                tot += decided(st)
            # generic -> generic (other exponent size), width pairs
            ms = NS if ctx.tier == 'thorough' else [m for m in NS if m in (2, 3, 8, 16, 32)]
            path = prog.inherent(xty.tykey, 'from_' + other.name.lower())
            if not path:
                ctx.finding('ANCHOR', L('from_' + other.name.lower()), 'missing', 'function not found')
            else:
                for m in ms:
                    pm = other.px(m)
                    cells = p_cells(prog, path, m, depth=0)
                    if len(cells) > 24:
                        cells = p_cells(prog, '', m)
                    body = prog.bodies[path]
                    # generic parameter names of the callee: bind the source width to the parameter that is not the impl's N
                    gen = [x['name'] for x in body['generics'] if x['kind'] == 'const']
                    gm = {'N': n}
                    for nm in gen:
                        if nm != 'N':
                            gm[nm] = m
                    st = run_cells(ctx, prog, 'GCR', '%s<%d>::from_%s<%d>' % (xty.name, n, other.name.lower(), m), path,
                                   lambda cell, m=m, other=other: [px_arg(other, m, cell[0][0], cell[0][1], 0, other.tykey.replace('<N>', '<M>'))], [cells],
                                   lambda xs, pm=pm, px=px: px.encode(pm.decode(xs[0])), 32, gargs=gm, flat=shifter(m, 1), key_label=L('from_' + other.name.lower()))
                    tot += decided(st)
            # integers
            for iname, (bits, signed) in INTS.items():
                path = prog.inherent(xty.tykey, 'from_' + iname)
                if path and not is_stub(prog, path):
                    lits = lits_for(prog, path, bits, depth=2)
                    cells = cuts_to_cells(bits, lits)
                    if len(cells) > 120:
                        cells = cuts_to_cells(bits, [0, 1, 2])

                    def mk(cell, bits=bits, signed=signed):
                        lo, hi = cell[0]
                        if signed:
                            lo, hi = to_signed(lo, bits), to_signed(hi, bits)
                        return [int_arg(bits, signed, lo, hi, 0)]
                    st = run_cells(ctx, prog, 'GCR', '%s<%d>::from_%s' % (xty.name, n, iname), path, mk, [cells],
                                   lambda xs, bits=bits, signed=signed, px=px: px.encode(Fraction(to_signed(xs[0], bits) if signed else xs[0])), 32, gargs=g,
                                   key_label=L('from_' + iname))
                    tot += decided(st)
                elif not path:
                    ctx.finding('ANCHOR', L('from_' + iname), 'missing', 'function not found')
                else:
                    ctx.count('stubs_exempt')
                path = prog.inherent(xty.tykey, 'to_' + iname)
                if path:
                    lo_ = -(1 << (bits - 1)) if signed else 0
                    hi_ = (1 << (bits - 1)) - 1 if signed else (1 << bits) - 1
                    cells = p_cells(prog, path, n, depth=3)

                    def ispec(xs, px=px, lo_=lo_, hi_=hi_, bits=bits):
                        v = px.decode(xs[0])
                        if v == S.NAR:
                            return None
                        return S.to_int_spec(v, lo_, hi_) & mask(bits)
                    st = run_cells(ctx, prog, 'GCR', '%s<%d>::to_%s' % (xty.name, n, iname), path,
                                   lambda cell, n=n, xty=xty: [px_arg(xty, n, cell[0][0], cell[0][1], 0)], [cells], ispec, bits, gargs=g, flat=sh, key_label=L('to_' + iname))
                    tot += decided(st)
                else:
                    ctx.finding('ANCHOR', L('to_' + iname), 'missing', 'function not found')
            # floats: special cells of to_f64 / from_f64
            path = prog.inherent(xty.tykey, 'to_f64')
            if path:
                from interp import Interp
                I = Interp(prog)
                for x, what in ((0, 'zero'), (1 << (n - 1), 'nar')):
                    out = I.run(path, [px_arg(xty, n, x, x, 0)], g)
                    v = out.value if out.kind == 'return' else None
                    bits_ = v.pat.uval() if isinstance(v, AFloat) and v.pat is not None and v.pat.is_const() else None
                    good = (bits_ == 0) if what == 'zero' else (bits_ is not None and S.F64.decode(bits_) == 'nan')
                    ctx.count('cells')
                    if good:
                        tot += 1
                    else:
                        ctx.finding('GCR', L('to_f64'), 'values', '%s<%d>::to_f64 of %s returns %s' % (xty.name, n, what, v))
            path = prog.inherent(xty.tykey, 'from_f64')
            if path:
                import struct
                pts = [0, 1 << 63, 0x7ff0000000000000, 0xfff0000000000000, 0x7ff8000000000000, 0x3ff0000000000000, 0xbff0000000000000]
                # specification-critical floats: every posit of the width near the ends of its range and around one, and the midpoints between neighbours
                pn = px.p
                pmid = S.Posit(n + 1, xty.es)
                us = sorted({u for u in (list(range(1, min(6, pn.maxpos_bits))) + list(range(max(1, pn.maxpos_bits - 5), pn.maxpos_bits + 1))
                                         + [pn.nar >> 1, (pn.nar >> 1) + 1, (pn.nar >> 1) - 1]) if 0 < u <= pn.maxpos_bits})
                for u in us:
                    for val in (pn.decode(u), pmid.decode(2 * u + 1) if u < pn.maxpos_bits else None, pmid.decode(2 * u - 1) if u > 1 else None):
                        if val is None:
                            continue
                        b = S.F64.encode(val)
                        if S.F64.decode(b) == val:
                            pts += [b, b | (1 << 63), b + 1, b - 1]
                pts = sorted(set(pts))
                cells = [(p, p) for p in pts]

                def fspec(xs, px=px):
                    v = S.F64.decode(xs[0])
                    if isinstance(v, str):
                        return px.p.nar << px.sh
                    return px.encode(v)
                st = run_cells(ctx, prog, 'GCR', '%s<%d>::from_f64' % (xty.name, n), path,
                               lambda cell: [gcr.float_arg(64, cell[0][0], cell[0][1], 0)], [cells], fspec, 32, gargs=g, key_label=L('from_f64'))
                tot += decided(st)
        # to_f64 routing (R7) for a few widths (all in thorough)
        path = prog.inherent(xty.tykey, 'to_f64')
        if path:
            for n in ([8, 16, 32] if ctx.tier == 'quick' else NS):
                if n < 3:
                    continue
                src = gcr.PTy('%s<%d>' % (xty.name, n), xty.tykey, n, xty.es)
                routing_px(ctx, prog, xty, n, path)
    # fixed -> generic conversions are exact whenever the value fits in N bits: routing per source regime cell
    rc = rp = 0
    for xty in XTYS:
        for fname, src in FIXED.items():
            path = prog.inherent(xty.tykey, 'from_' + fname)
            if not path:
                continue
            for n in ([8, 16, 24, 32] if ctx.tier == 'quick' else [m for m in NS if m >= 4]):
                before = len(ctx.findings)
                c, p_ = rules_routing.check_conversion(ctx, prog, 'R7', '%s::from_%s' % (xty.name, fname), path, src, 'px', (n, xty.es), gargs={'N': n})
                rc += c
                rp += p_
                # aggregate per function: keep only the first routing finding of this function
                extra = [f for f in ctx.findings[before:] if f.rule == 'R7']
                for f in extra[1:]:
                    ctx.findings.remove(f)
                for f in extra[:1]:
                    f.instance = 'values'
                    f.msg = '%s<%d>::from_%s: %s' % (xty.name, n, fname, f.msg)
    ctx.count('fixed_to_generic_routing_cells', rc)
    ctx.count('fixed_to_generic_routing_cells_proved', rp)
    # R10: fixed-width -> generic-width conversions on rounding cells of the source format (truncation at bit N with guard / sticky, saturation)
    import rules_rounding
    ctx.trusted += [t for t in rules_rounding.TRUSTED if t not in ctx.trusted]
    ctx.rules.append('R10 rounding cells: fixed-width -> PxE?<N> per (N, sign, source regime, exponent, rounding case at bit N)')
    r10c = r10p = 0
    for xty in XTYS:
        for fname, src in FIXED.items():
            path = prog.inherent(xty.tykey, 'from_' + fname)
            if not path:
                continue
            for n in NS:
                dst = rules_rounding.Fmt('%s<%d>' % (xty.name, n), n, xty.es, xty.tykey)
                st = rules_rounding.check_posit_to_posit(ctx, prog, 'R10', '%s::from_%s' % (xty.name, fname), path, src, dst, False,
                                                         gargs={'N': n}, dst_pad=32 - n, cell_label='N=%d ' % n)
                r10c += st['cells']
                r10p += st['proved']
    # generic -> fixed and generic -> generic on rounding cells of the generic source format
    g2f_c = g2f_p = g2g_c = g2g_p = 0
    for xty in XTYS:
        for fname, dst in FIXED.items():
            path = prog.inherent(dst.tykey, 'from_' + xty.name.lower())
            if not path:
                continue
            for n in NS:
                if n < 3:
                    continue
                src = rules_rounding.Fmt('%s<%d>' % (xty.name, n), n, xty.es, xty.tykey)
                st = rules_rounding.check_posit_to_posit(ctx, prog, 'R10', '%s::from_%s' % (dst.name, xty.name.lower()), path, src, dst, False,
                                                         gargs={'N': n}, src_pad=32 - n, src_tykey=xty.tykey, cell_label='N=%d ' % n)
                g2f_c += st['cells']
                g2f_p += st['proved']
    ms = [8, 32] if ctx.tier == 'quick' else [3, 5, 8, 16, 31, 32]
    nsel = [3, 8, 16, 32] if ctx.tier == 'quick' else [n for n in NS if n >= 3]
    for xty in XTYS:
        for sfam in XTYS:
            path = prog.inherent(xty.tykey, 'from_' + sfam.name.lower())
            if not path:
                continue
            gen = [x['name'] for x in prog.bodies[path]['generics'] if x['kind'] == 'const']
            for n in nsel:
                for m in ms:
                    gm = {'N': n}
                    for nm in gen:
                        if nm != 'N':
                            gm[nm] = m
                    src = rules_rounding.Fmt('%s<%d>' % (sfam.name, m), m, sfam.es, sfam.tykey)
                    dst = rules_rounding.Fmt('%s<%d>' % (xty.name, n), n, xty.es, xty.tykey)
                    st = rules_rounding.check_posit_to_posit(ctx, prog, 'R10', '%s::from_%s' % (xty.name, sfam.name.lower()), path, src, dst, False,
                                                             gargs=gm, src_pad=32 - m, dst_pad=32 - n, src_tykey=sfam.tykey.replace('<N>', '<M>'),
                                                             cell_label='M=%d N=%d ' % (m, n))
                    g2g_c += st['cells']
                    g2g_p += st['proved']
    ctx.count('generic_to_fixed_rounding_cells', g2f_c)
    ctx.count('generic_to_fixed_rounding_cells_proved', g2f_p)
    ctx.count('generic_to_generic_rounding_cells', g2g_c)
    ctx.count('generic_to_generic_rounding_cells_proved', g2g_p)
    ctx.count('fixed_to_generic_rounding_cells', r10c)
    ctx.count('fixed_to_generic_rounding_cells_proved', r10p)
    ctx.require('C14 decided cells', tot, 3000)
    ctx.undecided['general_path'] = ('integer conversions beyond the guard cells; rounding cells left undecided (counted); from_f64 by repeated halving (float arithmetic) beyond the probed floats; quire -> PxE2<N> rounding')
    ctx.notes.append('PxE1::from_u32 and PxE1::from_i64 are whole-body todo!() stubs and are excluded as such')
    return LEVEL, ('Zero/NaR preservation, N == 2 and saturation cells, integer heads of every generic-width conversion decided per bound N (per (M,N) for generic-to-generic); '
                   'to_f64 exact by bit routing per regime cell; fixed <-> generic and generic -> generic posit conversions correctly rounded on rounding cells (sticky position sampled), for the analysed widths (known findings excepted).')


def is_stub(prog, path):
    b = prog.bodies[path]
    t = b['blocks'][0]['term']
    return t['t'] == 'call' and (t['callee'].get('resolved') or t['callee'].get('orig') or '').startswith('core::panicking')


def routing_px(ctx, prog, xty, n, path):
    """to_f64 of PxE<N>: the N-bit pattern sits in the top bits, the low 32-N bits are zero"""
    from interp import Interp
    from aval import AInt, AAgg
    import aval
    I = Interp(prog)
    sh = 32 - n
    cells = proved = 0
    for negative in (False, True):
        for k, e, fl, known in rules_routing.regime_cells(n, xty.es):
            cells += 1
            scale = k * (1 << xty.es) + e
            y = rules_routing.cell_value(32, list(known) + [('x', 0, fl - 1 - i, False) for i in range(fl)] + [0] * sh, 0, 0) if False else None
            bits = [0] + list(known) + [('x', 0, fl - 1 - i, False) for i in range(fl)] + [0] * sh
            ya = AInt(32, False, None, None, 0, 0, sym=list(reversed(bits)))
            ys = aval.cast_int(ya, 32, True)
            if negative:
                ys, _ = aval.neg(ys)
            arg = AAgg(xty.tykey, [ys])
            lits = [('x', 0, fl - 1 - i, False) for i in range(fl)]
            want = rules_routing.expected_float_bits(S.F64, negative, scale, lits)
            cname = '%s k=%d e=%d' % ('-' if negative else '+', k, e)
            try:
                out = I.run(path, [arg], {'N': n})
            except Exception as ex:
                ctx.undecided.setdefault('routing_unsupported', []).append('%s<%d>::to_f64 %s: %s' % (xty.name, n, cname, ex))
                continue
            r = rules_routing.result_int(out.value) if out.kind == 'return' else None
            if out.kind == 'panic':
                site = getattr(out, 'site', None)
                ctx.finding('PANIC', *(site_key(site) if site else (path, 'panic')),
                            '%s<%d>::to_f64 panics on regime cell %s: %s at %s' % (xty.name, n, cname, out.value, out.where),
                            alt=('PANIC@', '%s<N>::to_f64' % xty.name, site_key(site)[1]) if site else None)
                continue
            if r is None or any(b is None for b in rules_routing.sym_msb_first(r)):
                ctx.count('routing_cells_undecided')
                continue
            if rules_routing.sym_msb_first(r) != want:
                ctx.finding('R7', '%s::to_f64' % xty.name, 'values', '%s<%d>::to_f64 routes bits differently from the specification on regime cell %s' % (xty.name, n, cname),
                            {'function': path})
            else:
                proved += 1
    ctx.count('routing_cells', cells)
    ctx.count('routing_cells_proved', proved)
