"""generic-width posits: cells in N-bit pattern space, left-aligned in 32 bits"""
from fractions import Fraction
import spec as S
import gcr
from gcr import cuts_to_cells, run_cells, collect_literals, DECODE_HELPERS
from aval import AInt, AAgg, mask, to_signed

QUICK_N = [2, 3, 4, 5, 8, 16, 31, 32]
ALL_N = list(range(2, 33))


class XTy:
    def __init__(self, name, tykey, es):
        self.name = name
        self.tykey = tykey
        self.es = es

    def px(self, n):
        return S.PositX(n, self.es)


PX1 = XTy('PxE1', 'pxe1::PxE1<N>', 1)
PX2 = XTy('PxE2', 'pxe2::PxE2<N>', 2)
XTYS = [PX1, PX2]


def ns(ctx):
    return ALL_N if ctx.tier == 'thorough' else QUICK_N


def px_arg(xty, n, plo, phi, idx, tykey=None):
    """N-bit pattern interval [plo, phi] (not straddling the sign boundary) left-aligned in an i32"""
    s = 32 - n
    lo, hi = to_signed(plo << s, 32), to_signed(phi << s, 32)
    return AAgg(tykey or xty.tykey, [AInt(32, True, lo, hi, kz=mask(s), term=('in', idx))])


def p_cells(prog, path, n, depth=1, extra=()):
    s = 32 - n
    lits = set()
    for l in collect_literals(prog, path, depth=depth, skip=DECODE_HELPERS):
        if 0 <= l < (1 << 32):
            lits.add(l >> s)
        elif -(1 << 31) <= l < 0:
            lits.add((l & mask(32)) >> s)
    lits = {l for l in lits if 0 <= l < (1 << n)}
    nar = 1 << (n - 1)
    one = 1 << (n - 2) if n >= 2 else 0
    base = [0, nar, one, nar - 1, 1] + list(extra)
    cells = cuts_to_cells(n, list(lits) + base)
    if len(cells) > 60:
        cells = cuts_to_cells(n, base)
    return cells


def shifter(n, nargs_posit):
    s = 32 - n

    def flat(xs):
        return tuple(x << s for x in xs)
    return flat
