"""shared helpers for the GCR-based property modules"""
from fractions import Fraction
import spec as S
import gcr
from gcr import (PTYS, P8, P16, P32, posit_arg, int_arg, float_arg, collect_literals, cuts_to_cells, run_cells,
                 DECODE_HELPERS)
from aval import mask, to_signed


def lits_for(prog, path, bits, depth=2, skip=DECODE_HELPERS):
    lits = collect_literals(prog, path, depth=depth, skip=skip)
    m = mask(bits)
    out = set()
    for l in lits:
        if -(1 << bits) < l < (1 << bits):
            out.add(l & m)
    return out


def special_cuts(pty):
    """encodings every posit function is cut at"""
    return [0, pty.nar, pty.one, pty.maxpos, 1]


def coarse_cells(pty, extra=()):
    """a small partition: {0},{NaR},{ONE},{-ONE},{maxpos},{minpos}, positives, negatives split at +-ONE"""
    return cuts_to_cells(pty.bits, list(special_cuts(pty)) + list(extra))


def anchor(ctx, prog, pty, name):
    path = prog.inherent(pty.tykey, name)
    if not path:
        ctx.finding('ANCHOR', '%s::%s' % (pty.name, name), 'missing', 'public function %s::%s not found in the extracted program' % (pty.name, name))
    return path


def decided(st):
    return st['decided_const'] + st['decided_id'] + st['decided_neg'] + st['decided_index']


def posit_unary_spec(pty, f):
    p = pty.posit

    def spec(xs):
        v = p.decode(xs[0])
        r = f(v)
        if r is None:
            return None
        return p.encode(r)
    return spec


def posit_binary_spec(pty, f):
    p = pty.posit

    def spec(xs):
        a, b = p.decode(xs[0]), p.decode(xs[1])
        r = f(a, b)
        if r is None:
            return None
        return p.encode(r)
    return spec


def nar_strict2(f):
    def g(a, b):
        if a == S.NAR or b == S.NAR:
            return S.NAR
        return f(a, b)
    return g


def run_points(ctx, prog, rule, label, path, pty, points, spec, gargs=None, key_label=None, mkargs=None, out_bits=None):
    """singleton cells given as explicit operand tuples (probes): constant propagation through the MIR, result compared with the exact
    specification.  Returns the number of points decided."""
    from interp import Interp, site_key, entry_label
    from rules_routing import result_int
    I = Interp(prog, max_steps=200000)
    n = 0
    for pt in points:
        if getattr(ctx, 'over_budget', None) and ctx.over_budget():
            ctx.count('probe_points_not_decided_soft_budget')
            continue
        args = mkargs(pt) if mkargs else [posit_arg(pty, x, x, i) for i, x in enumerate(pt)]
        try:
            out = I.run(path, args, gargs or {})
        except Exception as ex:
            ctx.count('probe_points_unsupported')
            continue
        want = spec(list(pt))
        if want is None:
            continue
        cell = 'x'.join('{%#x}' % x for x in pt)
        if out.kind == 'return':
            r = result_int(out.value)
            if r is None or not r.is_const():
                ctx.count('probe_points_undecided')
                continue
            n += 1
            ob = out_bits or pty.bits
            if r.uval() != want & mask(ob):
                ctx.finding(rule, key_label or label, ('cell=' + cell) if not key_label else 'values',
                            '%son cell %s the function returns %#x but the specification gives %#x' % ((label + ': ') if key_label else '', cell, r.uval(), want & mask(ob)),
                            {'function': path, 'witness': [hex(x) for x in pt]})
        elif out.kind in ('panic', 'budget'):
            n += 1
            site = getattr(out, 'site', None)
            if out.kind == 'panic' and site:
                ctx.finding('PANIC', *site_key(site), '%s at %s: reached on cell %s of %s; the operation does not return in an overflow-checked build' % (out.value, out.where, cell, label),
                            {'function': path, 'entry': label}, alt=('PANIC@', entry_label(label), site_key(site)[1]))
            else:
                ctx.finding(rule, key_label or label, 'cell=' + cell, 'on cell %s the function does not return: %s %s at %s' % (cell, out.kind, out.value, out.where), {'function': path})
        else:
            ctx.count('probe_points_undecided')
    ctx.count('probe_points', n)
    return n


def run_points_parallel(ctx, prog, jobs, chunk=400, prefix='probe_'):
    """jobs: list of dicts (rule, label, path, pty, points, spec, and optional run_points keywords); the points are decided in forked workers"""
    import collections
    import rules_rounding

    def task(c, pr, job, pts):
        n = run_points(c, pr, job['rule'], job['label'], job['path'], job['pty'], pts, job['spec'],
                       **{k: v for k, v in job.items() if k in ('gargs', 'key_label', 'mkargs', 'out_bits')})
        return collections.Counter(points=n)
    tasks = []
    for job in jobs:
        pts = job['points']
        for i in range(0, len(pts), chunk):
            tasks.append((task, (job, pts[i:i + chunk]), {}))
    st = rules_rounding.run_parallel(ctx, prog, tasks, prefix=prefix)
    ctx.count('probe_points', st['points'])
    return st['points']
