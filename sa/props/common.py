"""shared helpers for the GCR-based property modules"""
from fractions import Fraction
import spec as S
import gcr
from gcr import (PTYS, P8, P16, P32, posit_arg, int_arg, float_arg, collect_literals, cuts_to_cells, run_cells,
                 DECODE_HELPERS)
from aval import mask, to_signed


def lits_for(prog, path, bits, depth=2, skip=DECODE_HELPERS):
    lits = collect_literals(prog, path, depth=depth, skip=skip)
    m = mask(bits)
    out = set()
    for l in lits:
        if -(1 << bits) < l < (1 << bits):
            out.add(l & m)
    return out


def special_cuts(pty):
    """encodings every posit function is cut at"""
    return [0, pty.nar, pty.one, pty.maxpos, 1]


def coarse_cells(pty, extra=()):
    """a small partition: {0},{NaR},{ONE},{-ONE},{maxpos},{minpos}, positives, negatives split at +-ONE"""
    return cuts_to_cells(pty.bits, list(special_cuts(pty)) + list(extra))


def anchor(ctx, prog, pty, name):
    path = prog.inherent(pty.tykey, name)
    if not path:
        ctx.finding('ANCHOR', '%s::%s' % (pty.name, name), 'missing', 'public function %s::%s not found in the extracted program' % (pty.name, name))
    return path


def decided(st):
    return st['decided_const'] + st['decided_id'] + st['decided_neg'] + st['decided_index']


def posit_unary_spec(pty, f):
    p = pty.posit

    def spec(xs):
        v = p.decode(xs[0])
        r = f(v)
        if r is None:
            return None
        return p.encode(r)
    return spec


def posit_binary_spec(pty, f):
    p = pty.posit

    def spec(xs):
        a, b = p.decode(xs[0]), p.decode(xs[1])
        r = f(a, b)
        if r is None:
            return None
        return p.encode(r)
    return spec


def nar_strict2(f):
    def g(a, b):
        if a == S.NAR or b == S.NAR:
            return S.NAR
        return f(a, b)
    return g
