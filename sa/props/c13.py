"""C13 - generic-width arithmetic: NaR/zero algebra and guard cells per N (R2), units (R8), selector (R5), N-only arithmetic (R9)."""
import spec as S
from props.pxe_common import *
from props.common import nar_strict2, decided
from props import c05
import rules_units

LEVEL = 'other'

BIN = {
    'core::ops::Add': ('add', nar_strict2(lambda a, b: a + b)),
    'core::ops::Sub': ('sub', nar_strict2(lambda a, b: a - b)),
    'core::ops::Mul': ('mul', nar_strict2(lambda a, b: a * b)),
    'core::ops::Div': ('div', nar_strict2(lambda a, b: S.NAR if b == 0 else a / b)),
}
TER = {
    'mul_add': lambda a, b, c: a * b + c,
    'mul_sub': lambda a, b, c: a * b - c,
    'sub_product': lambda c, a, b: c - a * b,
}


def spec_n(px, f, arity):
    def spec(xs):
        vs = [px.decode(x) for x in xs]
        if arity == 3 and any(v == S.NAR for v in vs):
            return px.p.nar << px.sh
        r = f(*vs)
        return px.encode(r)
    return spec


def sqrt_spec(px):
    p = px.p

    def spec(xs):
        v = px.decode(xs[0])
        if v == S.NAR or v < 0:
            return p.nar << px.sh
        if v == 0:
            return 0
        if p.n == 2:
            return px.encode(1)
        return S.isqrt_round(p, xs[0] >> px.sh) << px.sh
    return spec


def round_spec(px):
    def spec(xs):
        v = px.decode(xs[0])
        if v == S.NAR:
            return px.p.nar << px.sh
        return px.encode(S.round_ne(v))
    return spec


def run(ctx):
    prog = ctx.prog('default')
    ctx.rules += ['R2 guarded-cell results per bound N on N-bit pattern cells', 'R5 selector dependence', 'R8 layout/units of decoded fields']
    tot = 0
    pjobs = []
    for xty in XTYS:
        for n in ns(ctx):
            px = xty.px(n)
            g = {'N': n}
            flat1 = shifter(n, 1)
            for tr, (nm, f) in BIN.items():
                path, _ = prog.find_impl_method(tr, xty.tykey, nm)
                if not path:
                    ctx.finding('ANCHOR', '%s %s' % (xty.name, tr), 'missing', 'operator impl not found')
                    continue
                cells = p_cells(prog, path, n, depth=0)
                if len(cells) > 14:
                    cells = p_cells(prog, '', n)
                st = run_cells(ctx, prog, 'GCR', '%s<%d>::%s' % (xty.name, n, nm), path,
                               lambda cell, n=n, xty=xty: [px_arg(xty, n, c[0], c[1], i) for i, c in enumerate(cell)],
                               [cells, cells], spec_n(px, f, 2), 32, gargs=g, flat=flat1, key_label='%s::%s' % (xty.name, nm))
                tot += decided(st)
                if n >= 4 and (ctx.tier == 'thorough' or n in (5, 8, 32)):
                    # rounding matrix of the N-bit format: every result scale x rounding situation (directed construction from (N, es))
                    import probes
                    from props.common import run_points
                    import gcr
                    fmt = gcr.PTy('%s<%d>' % (xty.name, n), xty.tykey, n, xty.es)
                    pts = probes.op_probes(fmt, nm, 1)
                    sh_ = 32 - n
                    pjobs.append(dict(rule='GCR', label='%s<%d>::%s' % (xty.name, n, nm), path=path, pty=fmt, points=pts,
                                      spec=(lambda xs, px=px, f=f, sh_=sh_: spec_n(px, f, 2)([x << sh_ for x in xs])), gargs=g, key_label='%s::%s' % (xty.name, nm),
                                      mkargs=(lambda pt, n=n, xty=xty: [px_arg(xty, n, x, x, i) for i, x in enumerate(pt)]), out_bits=32))
            for nm, f in TER.items():
                path = prog.inherent(xty.tykey, nm)
                if not path:
                    ctx.finding('ANCHOR', '%s::%s' % (xty.name, nm), 'missing', 'function not found')
                    continue
                nar, one = 1 << (n - 1), 1 << (n - 2)
                cells = sorted(set([(0, 0), (nar, nar), (one, one)] + ([(1, one - 1)] if one > 1 else []) + ([(nar + 1, mask(n))] if n > 1 else [])))
                st = run_cells(ctx, prog, 'GCR', '%s<%d>::%s' % (xty.name, n, nm), path,
                               lambda cell, n=n, xty=xty: [px_arg(xty, n, c[0], c[1], i) for i, c in enumerate(cell)],
                               [cells] * 3, spec_n(px, f, 3), 32, gargs=g, flat=flat1, key_label='%s::%s' % (xty.name, nm))
                tot += decided(st)
                if (xty is PX2 or ctx.tier == 'thorough') and (n in (8, 32) or (ctx.tier == 'thorough' and n >= 6)):
                    # fused probes of the N-bit format (rounding matrix + sparse products with a lone lowest bit)
                    import probes
                    from props.common import run_points
                    import gcr
                    from aval import mask as _mask
                    fmt = gcr.PTy('%s<%d>' % (xty.name, n), xty.tykey, n, xty.es)
                    pts = probes.fma_probes(fmt, 1)[::(3 if ctx.tier == 'thorough' else 7)] + probes.fma_sparse_probes(fmt, per_m=3)
                    if nm == 'mul_sub':
                        pts = [(a, b, (-c) & _mask(n)) for a, b, c in pts]
                    elif nm == 'sub_product':
                        pts = [(c, (-a) & _mask(n), b) for a, b, c in pts]
                    sh_ = 32 - n
                    pjobs.append(dict(rule='GCR', label='%s<%d>::%s' % (xty.name, n, nm), path=path, pty=fmt, points=pts,
                                      spec=(lambda xs, px=px, f=f, sh_=sh_: spec_n(px, f, 3)([x << sh_ for x in xs])), gargs=g, key_label='%s::%s' % (xty.name, nm),
                                      mkargs=(lambda pt, n=n, xty=xty: [px_arg(xty, n, x, x, i) for i, x in enumerate(pt)]), out_bits=32))
            for nm, sp in (('sqrt', sqrt_spec), ('round', round_spec)):
                path = prog.inherent(xty.tykey, nm)
                if not path:
                    if not (xty is PX1 and nm == 'sqrt'):
                        ctx.finding('ANCHOR', '%s::%s' % (xty.name, nm), 'missing', 'function not found')
                    continue
                cells = p_cells(prog, path, n, depth=1)
                st = run_cells(ctx, prog, 'GCR', '%s<%d>::%s' % (xty.name, n, nm), path,
                               lambda cell, n=n, xty=xty: [px_arg(xty, n, cell[0][0], cell[0][1], 0)],
                               [cells], sp(px), 32, gargs=g, flat=flat1, key_label='%s::%s' % (xty.name, nm))
                tot += decided(st)
    # small widths exhaustively: every pair of N-bit patterns for + - * / and every pattern for sqrt / round, singly (enumeration of singleton
    # cells): for these N the closure of the low bits and the N-bit rounding are decided for all operands
    import gcr as _gcr
    pair_ns = [n for n in ns(ctx) if n <= (6 if ctx.tier == 'quick' else 8)]
    un_ns = [n for n in ns(ctx) if n <= (12 if ctx.tier == 'quick' else 16)]
    nexh = 0
    for xty in XTYS:
        for n in sorted(set(pair_ns + un_ns)):
            px = xty.px(n)
            g = {'N': n}
            fmt = _gcr.PTy('%s<%d>' % (xty.name, n), xty.tykey, n, xty.es)
            sh_ = 32 - n
            mk = (lambda pt, n=n, xty=xty: [px_arg(xty, n, x, x, i) for i, x in enumerate(pt)])
            if n in pair_ns:
                pairs = [(a, b) for a in range(1 << n) for b in range(1 << n)]
                for tr, (nm, f) in BIN.items():
                    path, _ = prog.find_impl_method(tr, xty.tykey, nm)
                    if path:
                        pjobs.append(dict(rule='GCR', label='%s<%d>::%s' % (xty.name, n, nm), path=path, pty=fmt, points=pairs,
                                          spec=(lambda xs, px=px, f=f, sh_=sh_: spec_n(px, f, 2)([x << sh_ for x in xs])), gargs=g,
                                          key_label='%s::%s' % (xty.name, nm), mkargs=mk, out_bits=32))
                        nexh += len(pairs)
            if n in un_ns:
                for nm, sp in (('sqrt', sqrt_spec), ('round', round_spec)):
                    path = prog.inherent(xty.tykey, nm)
                    if path:
                        pjobs.append(dict(rule='GCR', label='%s<%d>::%s' % (xty.name, n, nm), path=path, pty=fmt, points=[(a,) for a in range(1 << n)],
                                          spec=(lambda xs, px=px, sp=sp, sh_=sh_: sp(px)([x << sh_ for x in xs])), gargs=g,
                                          key_label='%s::%s' % (xty.name, nm), mkargs=mk, out_bits=32))
                        nexh += 1 << n
    ctx.count('small_width_points_enumerated', nexh)
    ctx.rules.append('singleton cells: every operand pair of + - * / for N <= %d and every operand of sqrt / round for N <= %d among the analysed widths'
                     % (max(pair_ns), max(un_ns)))
    from props.common import run_points_parallel
    run_points_parallel(ctx, prog, pjobs, chunk=1024)
    # R10 with one symbolic operand on the generic-width kernels (same families as C01 / C05): PxE2 for + - * / and the fused family, PxE1 for * /
    # (PxE1's + - and fused kernels are known to be wrong - see the known findings - and are left to the R2 cells above)
    import rules_rounding as RR
    ctx.trusted += [t_ for t_ in RR.TRUSTED if t_ not in ctx.trusted]
    ctx.rules.append('R10 (one symbolic operand) on PxE2<N> + - * / mul_add family and PxE1<N> * / for N in {8, 32} (thorough: {8, 16, 32})')
    tasks = []
    widths = (8, 16, 20, 32) if ctx.tier == 'thorough' else (8, 20, 32)     # 20: wide enough for every branch, narrow enough to stay clear of the known N >= 31 overflow sites
    for xty in XTYS:
        for n in widths:
            fmt = RR.Fmt('%s<%d>' % (xty.name, n), n, xty.es, xty.tykey, pad=32 - n, gargs={'N': n})
            maxs = (n - 2) << xty.es
            sc = list(range(-maxs, maxs))
            if n == 32:
                sc = [s_ for s_ in sc if s_ % 4 in (0, 3) and (ctx.tier == 'thorough' or (s_ >> 2) % 4 == 0)]
            elif n in (16, 20) or ctx.tier == 'quick':
                sc = sc[::2]
            chunk = 6
            if xty is PX2 and not (n == 20 and ctx.tier == 'quick'):
                for opn, tr in (('add', 'core::ops::Add'), ('sub', 'core::ops::Sub')):
                    path, _ = prog.find_impl_method(tr, xty.tykey, opn)
                    if path:
                        for i in range(0, len(sc), chunk):
                            tasks.append((RR.check_add, ('R10', '%s::%s' % (xty.name, opn), path, fmt, False), dict(scales=sc[i:i + chunk], op=opn)))
                            tasks.append((RR.check_add, ('R10', '%s::%s' % (xty.name, opn), path, fmt, False), dict(scales=sc[i:i + chunk], op=opn, swap=True, negative=True)))
                for fname in TER:
                    path = prog.inherent(xty.tykey, fname)
                    if path:
                        for i in range(0, len(sc), chunk):
                            for v in range(len(RR.FMA_VARIANTS[fname])):
                                tasks.append((RR.check_fma, ('R10', '%s::%s' % (xty.name, fname), path, fmt, fname, v, False), dict(scales=sc[i:i + chunk][::2], t=0 if v else -3)))
            tsel = {8: [-9, -2, 0, 1, 5], 16: [-30, -7, 0, 3, 21], 20: [-70, -66, -62, -30, 0, 13, 58, 64, 68], 32: [-100, -17, 0, 8, 77]}[n]
            for opn, tr in (('mul', 'core::ops::Mul'), ('div', 'core::ops::Div')):
                path, _ = prog.find_impl_method(tr, xty.tykey, opn)
                if path:
                    for t_ in tsel:
                        tasks.append((RR.check_mul_pow2, ('R10', '%s::%s' % (xty.name, opn), path, fmt, opn, 'bc', False, [t_]), {}))
    st_ = RR.run_parallel(ctx, prog, tasks)
    ctx.count('one_symbolic_operand_cells', st_['cells'])
    ctx.count('one_symbolic_operand_cells_proved', st_['proved'])
    # selector dependence of the two generic kernels
    ks = 0
    for xty in XTYS:
        path = prog.inherent(xty.tykey, 'mul_sub')
        if path:
            k = c05.find_kernel(prog, path)
            if k:
                ks += c05.selector_rule(ctx, prog, k, xty.name + '::mul_add-kernel')
    ctx.count('selector_rule_sites', ks)
    nu = rules_units.check_units(ctx, prog, [('pxe1::PxE1<N>', 1, 32), ('pxe2::PxE2<N>', 2, 32)])
    ctx.count('unit_rule_instances', nu)   # no floor: the decode helpers are private and may be renamed
    ctx.require('C13 decided cells', tot, 3000 if ctx.tier == 'quick' else 10000)
    ctx.undecided['general_path'] = ('N-bit rounding on the general path; closure of the low bits on the general path; PxE2<32> == P32E2 and PxE1<16> == P16E1 bit-for-bit')
    ctx.notes.append('PxE1 has no sqrt; nothing is claimed for it')
    return LEVEL, ('NaR/zero algebra, N==2 branches and guard cells of + - * / mul_add mul_sub sub_product sqrt round for PxE1<N>/PxE2<N> decided per bound N on N-bit '
                   'pattern cells; exponent extraction / regime scaling units; selector dependence.')
