"""C04 - quire accumulation: predicates, NaR stickiness, zero operands, spelling expansion, necessary dependence."""
import itertools

from aval import AInt, AAgg, ARef, ASym, mask
from interp import Interp
from symeval import SymEval, strip_refs
from slicer import Slice
import gcr
from gcr import posit_arg, run_cells
from quire_common import *
from fractions import Fraction

LEVEL = 'other'


def find_leaf(t):
    if isinstance(t, tuple):
        if t and t[0] == 'leaf':
            return t[1:]
        for x in t:
            r = find_leaf(x)
            if r is not None:
                return r
    return None


def predicates(ctx, prog, q):
    """is_zero / is_nar / to_posit heads on a partition of all quire states (field = 0 / special / other)"""
    n = 0
    cellsets = [q.field_cells(k) for k in range(q.nf)]
    for name, spec in (('is_zero', lambda xs: 1 if q.is_zero(xs) else 0), ('is_nar', lambda xs: 1 if q.is_nar(xs) else 0)):
        path = prog.inherent(q.tykey, name)
        if not path:
            ctx.finding('ANCHOR', '%s::%s' % (q.name, name), 'missing', 'function not found')
            continue
        st = run_cells(ctx, prog, 'QPRED', '%s::%s' % (q.name, name), path,
                       lambda cell: [self_ref(q.state(cell))], cellsets, spec, 1)
        n += st['decided_const']
        if st['decided_const'] != st['cells']:
            ctx.notes.append('%s::%s: %d of %d state cells not decided' % (q.name, name, st['cells'] - st['decided_const'], st['cells']))
    path = prog.inherent(q.tykey, 'to_posit')
    if path:
        def spec(xs):
            if q.is_zero(xs):
                return 0
            if q.is_nar(xs):
                return q.pty.nar
            return None
        st = run_cells(ctx, prog, 'QPRED', '%s::to_posit' % q.name, path,
                       lambda cell: [self_ref(q.state(cell))], cellsets, spec, q.pty.bits)
        n += st['decided_const']
    else:
        ctx.finding('ANCHOR', '%s::to_posit' % q.name, 'missing', 'function not found')
    return n


def q_states(q):
    """coarse quire states for the accumulate heads: ZERO, NaR, and three kinds of real non-zero states"""
    full = [(0, mask(b)) for b, _ in q.fields]
    b0 = q.fields[0][0]
    sb = 1 << (b0 - 1)
    states = [q.zero_cell(), q.nar_cell(),
              ((1, sb - 1),) + tuple(full[1:]),
              ((sb + 1, mask(b0)),) + tuple(full[1:])]
    if q.nf > 1:
        states.append(((sb, sb), (1, mask(q.fields[1][0]))) + tuple(full[2:]))
    return states


def accumulate_heads(ctx, prog, q):
    """NaR stickiness and zero operands through every base spelling"""
    pty = q.pty
    P = pty.tykey
    neg_one = (-pty.one) & mask(pty.bits)
    pcells = [(0, 0), (pty.nar, pty.nar), (1, pty.one - 1), (pty.one, pty.one), (pty.one + 1, pty.maxpos),
              (pty.nar + 1, neg_one - 1), (neg_one, neg_one), (neg_one + 1, mask(pty.bits))]
    states = q_states(q)
    n = 0
    targets = []
    for name in ('add_product', 'sub_product'):
        p_ = prog.inherent(q.tykey, name)
        if p_:
            targets.append(('%s::%s' % (q.name, name), p_, 'inh2'))
        else:
            ctx.finding('ANCHOR', '%s::%s' % (q.name, name), 'missing', 'function not found')
    for tr in ('core::ops::AddAssign', 'core::ops::SubAssign'):
        p_ = find_assign_impl(prog, q, tr, '(%s, %s)' % (P, P))
        if p_:
            targets.append(('<%s as %s<(P,P)>>' % (q.name, tr.split('::')[-1]), p_, 'pair'))
        else:
            ctx.finding('ANCHOR', '%s %s<(P,P)>' % (q.name, tr), 'missing', 'impl not found')
        p_ = find_assign_impl(prog, q, tr, P)
        if p_:
            targets.append(('<%s as %s<P>>' % (q.name, tr.split('::')[-1]), p_, 'one'))
        else:
            ctx.finding('ANCHOR', '%s %s<P>' % (q.name, tr), 'missing', 'impl not found')
    nf = q.nf
    for label, path, kind in targets:
        npos = 1 if kind == 'one' else 2

        def mk(cell, kind=kind):
            st = q.state(cell[0])
            a = posit_arg(pty, cell[1][0], cell[1][1], nf)
            if kind == 'one':
                return [self_ref(st, True), a]
            b = posit_arg(pty, cell[2][0], cell[2][1], nf + 1)
            if kind == 'pair':
                return [self_ref(st, True), AAgg('(tuple)', [a, b])]
            return [self_ref(st, True), a, b]

        def flat(xs):
            return tuple(xs[0]) + tuple(xs[1:])

        def spec(fx, npos=npos):
            qs = fx[:nf]
            ops = fx[nf:nf + npos]
            if q.is_nar(qs) or any(o == pty.nar for o in ops):
                return q.nar_fields()
            if any(o == 0 for o in ops):
                return list(qs)
            return None
        # witnesses of a state cell are tuples of field values: build cellsets with the state as one "argument"
        cellsets = [[s for s in states]] + [pcells] * npos
        st = run_state_cells(ctx, prog, label, path, mk, cellsets, spec, q, flat)
        n += st
    return n


def run_state_cells(ctx, prog, label, path, mk, cellsets, spec, q, flat):
    """like gcr.run_cells but the first 'argument' is a whole quire state cell (tuple of field intervals)"""
    I = Interp(prog)
    decided = 0
    for cell in itertools.product(*cellsets):
        ctx.count('cells')
        args = mk(cell)
        out = I.run(path, args)
        state_cell = cell[0]
        wit_fields = [gcr.witnesses(lo, hi, 2) for lo, hi in state_cell]
        # a few state witnesses: all-lo, all-hi, mixed
        sw = [tuple(w[0] for w in wit_fields), tuple(w[-1] for w in wit_fields), tuple(w[len(w) // 2] for w in wit_fields)]
        pw = [gcr.witnesses(lo, hi, 3) for lo, hi in cell[1:]]
        wits = [(s,) + tuple(p) for s in sw for p in itertools.product(*pw)]
        if out.kind == 'return':
            fin = final_state(I, out, args)
            desc = gcr.describe(fin)
            descs = desc[1] if desc[0] == 'tuple' else [desc]
            if any(d[0] in ('top', 'tuple') for d in descs):
                ctx.count('general_path')
                continue
            decided += 1
            ctx.count('decided_state')
            for xs in wits:
                fx = flat(xs)
                e = spec(fx)
                if e is None:
                    continue
                got = [gcr.obtained_at(d, fx, b) for d, b in zip(descs, q.out_bits())]
                if got != [x & mask(b) for x, b in zip(e, q.out_bits())]:
                    ctx.finding('QACC', label, 'cell=' + str(cell).replace(' ', ''),
                                'for every input of the cell the accumulator becomes %s but the specification requires %s for input %s'
                                % (descs, [hex(x) for x in e], [hex(x) for x in fx]), {'function': path})
                    break
            else:
                ctx.sample({'fn': label, 'cell': str(cell)[:120], 'final_state': str(descs)[:120]}, limit=10)
        elif out.kind in ('panic', 'budget'):
            if any(spec(flat(xs)) is not None for xs in wits):
                ctx.finding('QACC', label, 'cell=' + str(cell).replace(' ', ''), 'the accumulate does not return on this cell: %s %s at %s' % (out.kind, out.value, out.where),
                            {'function': path})
        else:
            ctx.count('undecided')
    return decided


def spellings(ctx, prog, q):
    """every `+=` / `-=` operand spelling expands to the expected sequence of base accumulations with the right sign"""
    P = q.pty.tykey
    se = SymEval(prog, max_steps=20000)
    n = 0
    nfound = 0
    base = {}
    for tr, plus in (('core::ops::AddAssign', 1), ('core::ops::SubAssign', 0)):
        # base spellings (`P`, `(P, P)`) first: they define the reference kernels
        for rhs_ty, path, im in sorted(assign_impls(prog, q, tr), key=lambda x: (x[0].count('(') + x[0].count('[') > 1 or '[' in x[0], x[0])):
            if 'PxE' in rhs_ty:
                continue
            label = '<%s as %s<%s>>' % (q.name, tr.split('::')[-1], rhs_ty.replace(' ', ''))
            try:
                val, struct = build_rhs(prog, rhs_ty, P)
            except ValueError as e:
                ctx.finding('QSPELL', label, 'operand', str(e))
                continue
            r = se.run(path, arg_values={1: val})
            if r is None:
                # outside the term evaluator: not decided (no alarm); the spelling still counts as found
                ctx.undecided.setdefault('spellings', []).append('%s: %s %s' % (label, se.last_outcome.kind, se.last_outcome.where))
                nfound += 1
                continue
            got = []
            for eff in r['effects']:
                callee = eff[1]
                targs = eff[3]
                ls = [find_leaf(t) for t in targs[1:-1]]
                pl = targs[-1]
                got.append((callee, tuple(ls), pl[2] if isinstance(pl, tuple) and pl[0] == 'c' else None))
            if struct[0] == 'leaf' or (struct[0] == 'tuple' and all(x[0] == 'leaf' for x in struct[1]) and rhs_ty.startswith('(')):
                # a base spelling (`P` or `(P, P)`): whatever kernel it calls is the reference for the composite spellings
                if tr.endswith('AddAssign') and len(got) == 1:
                    base[len(got[0][1])] = got[0][0]
            want = []
            for pr in expected_pairs(struct):
                want.append((base.get(len(pr), '<kernel of the base spelling>'), tuple(pr), plus))
            n += 1
            if got != want:
                ctx.finding('QSPELL', label, 'expansion', 'expands to %r, expected %r' % (got, want), {'function': path})
            else:
                ctx.sample({'rule': 'QSPELL', 'spelling': label, 'accumulations': len(want), 'plus': plus}, limit=6)
    return n + nfound


def dependence(ctx, prog, q):
    """R5: the value stored into *q on the general path of fdp / fdp_one depends on `plus` and on every operand"""
    n = 0
    # the accumulate kernels are found by shape, not by name: the local callee of the base `+=` spellings whose first parameter is `&mut Q`
    P = q.pty.tykey
    kernels = []
    for rhs in ('(%s, %s)' % (P, P), P):
        sp = find_assign_impl(prog, q, 'core::ops::AddAssign', rhs)
        if not sp:
            continue
        for blk in prog.bodies[sp]['blocks']:
            t = blk['term']
            if t['t'] == 'call':
                cp = t['callee'].get('resolved')
                cb = prog.bodies.get(cp)
                if cb and cb['arg_count'] >= 3 and cb['locals'][1]['ty'] == '&mut ' + q.tykey and cb['locals'][cb['arg_count']]['ty'] == 'bool' and cp not in kernels:
                    kernels.append(cp)
    if not kernels:
        ctx.notes.append('%s: no accumulate kernel of the shape (&mut Q, bits.., bool) found: R5 has no instance' % q.name)
    for path in kernels:
        fn = path.rsplit('::', 1)[-1]
        body = prog.bodies[path]
        sl = Slice(body)
        nargs = body['arg_count']
        plus = [i for i in range(1, nargs + 1) if body['locals'][i]['ty'] == 'bool']
        operands = [i for i in range(2, nargs + 1) if i not in plus]
        # sites: assignments through the deref of argument 1 (the accumulator)
        sites = [s for s in sl.defs.get(1, []) if s[2] in ('assign', 'assign-through')]
        # ... and calls that hand the accumulator on as `&mut Q` (a helper that performs the store)
        for s_ in sl.defs.get(1, []):
            if s_[2] == 'call-mut' and s_ not in sites:
                t = body['blocks'][s_[0]]['term']
                cb = prog.bodies.get(t['callee'].get('resolved'))
                if cb and any(cb['locals'][i + 1]['ty'] == '&mut ' + q.tykey for i in range(cb['arg_count'])):
                    sites.append(s_)
        general = 0
        for site in sites:
            data = sl.site_deps(site, include_control=False)
            if not all(o in data for o in operands):
                continue
            general += 1
            n += 1
            alld = sl.site_deps(site, include_control=True)
            if not (set(plus) & alld):
                ctx.finding('R5-plus', '%s::%s' % (q.name, fn), 'accumulator-store', 'the value accumulated on the general path does not depend on the add/subtract flag',
                            {'function': path})
            if 1 not in data:
                ctx.finding('R5-acc', '%s::%s' % (q.name, fn), 'accumulator-store', 'the new accumulator value does not depend on the old one', {'function': path})
        if general == 0:
            ctx.finding('R5-operands', '%s::%s' % (q.name, fn), 'accumulator-store', 'no store into the accumulator depends on all operands %s' %
                        [body['locals'][i]['name'] for i in operands], {'function': path})
    return n


FRAC_BITS = {'Q8E0': 12, 'Q16E1': 56, 'Q32E2': 240}


def sequence_probes(ctx, prog, q):
    """specification-critical accumulate sequences on singleton cells: exact products, cancellation, ties with a sticky bit at the
    limb / window boundaries; after every sequence the bit image must be the exact sum in fixed point and to_posit its single rounding"""
    import probes
    import spec as S
    from fractions import Fraction
    pty = q.pty
    p = pty.posit
    P = pty.tykey
    add = find_assign_impl(prog, q, 'core::ops::AddAssign', '(%s, %s)' % (P, P))
    sub = find_assign_impl(prog, q, 'core::ops::SubAssign', '(%s, %s)' % (P, P))
    tp = prog.inherent(q.tykey, 'to_posit')
    if not (add and sub and tp):
        return 0
    total_bits = sum(b for b, _ in q.fields)
    fb = FRAC_BITS[q.name]
    vals = [v for v in probes.small_posit_probes(pty) if v not in (0, pty.nar)]
    one = pty.one
    seqs = []
    for a in vals[::2]:
        for b in vals[1::3]:
            seqs.append([('+', a, b)])
            seqs.append([('+', a, b), ('-', b, a)])                       # exact cancellation
            seqs.append([('+', a, b), ('+', one, one)])
    # ties at 1 with a sticky bit further down (half an ulp of 1.0 is 2^-(fraction bits + 1))
    fbits1 = pty.bits - 3 - pty.es          # fraction bits of values in [1, 2)
    h = fbits1 + 1
    if h % 2 == 0:
        hx = p.encode(Fraction(1, 2 ** (h // 2)))
        stickies = [s_ for s_ in (h + 2, h + 4, 2 * h, 2 * h + 8, fb - 2, fb) if s_ % 2 == 0 and s_ <= fb]
        for s_ in stickies:
            sx = p.encode(Fraction(1, 2 ** (s_ // 2)))
            if p.decode(sx) != Fraction(1, 2 ** (s_ // 2)):
                continue
            seqs.append([('+', one, one), ('+', hx, hx), ('+', sx, sx)])
            seqs.append([('+', one, one), ('+', hx, hx), ('-', sx, sx)])
            seqs.append([('-', one, one), ('-', hx, hx), ('-', sx, sx)])
        seqs.append([('+', one, one), ('+', hx, hx)])
        seqs.append([('+', one + 1, one), ('+', hx, hx)])
    # ties at several magnitudes (so that the leading bit sits in different limbs) with one sticky bit far below, of either sign
    for sc in ((0, 4, 8, 12, 20) if pty.bits <= 16 else (0, 8, 16, 32, 48, 64, 100)):
        M = Fraction(2) ** sc
        um = p.encode(M)
        if p.decode(um) != M or um + 1 >= p.maxpos_bits:
            continue
        half = (p.decode(um + 1) - M) / 2
        uh = p.encode(half)
        if p.decode(uh) != half:
            continue
        ts = list(range(2, fb + 1, 2)) if fb <= 60 else sorted(set(list(range(2, fb + 1, 10)) + [62, 64, 66, 126, 128, 130, 190, 192, 194, fb - 2, fb]))
        if ctx.tier == 'quick':
            ts = ts[::2] + [t_ for t_ in (56, 64, 128, 192) if t_ in ts]
        for t_ in ts:
            st_ = Fraction(1, 2 ** t_)
            if st_ >= half:
                continue
            us = p.encode(st_)
            if p.decode(us) == st_:
                prod = (us, one)
            else:
                r = p.encode(Fraction(1, 2 ** (t_ // 2)))
                if t_ % 2 or p.decode(r) != Fraction(1, 2 ** (t_ // 2)):
                    continue
                prod = (r, r)
            seqs.append([('+', um, one), ('+', uh, one), ('+',) + prod])
            seqs.append([('+', um, one), ('+', uh, one), ('-',) + prod])
            seqs.append([('-', um, one), ('-', uh, one), ('-',) + prod])
    # dense x dense products: both significands all ones / with the last fraction bit set, at every pair of scales around one (and a coarser
    # grid beyond): the product then fills the whole 2W-bit window, so every bit of the alignment and of the spill into the next limb matters
    def _dense(sc_, kind_):
        k_ = sc_ >> pty.es
        reg_ = (k_ + 2) if k_ >= 0 else (-k_ + 1)
        fbs_ = max(0, pty.bits - 1 - reg_ - pty.es)
        if fbs_ == 0:
            return None
        fr_ = ((1 << fbs_) - 1) if kind_ == 'ones' else 1
        v_ = Fraction(2) ** sc_ * (1 + Fraction(fr_, 1 << fbs_))
        u_ = p.encode(v_)
        return u_ if p.decode(u_) == v_ else None
    maxs_ = (pty.bits - 2) << pty.es
    near = list(range(-9, 10)) if pty.bits > 8 else list(range(-5, 6))
    far = [s_ for s_ in range(-maxs_ + 1, maxs_ - 1, 8 if pty.bits > 16 else 4) if s_ not in near]
    grid = [(sa_, sb_) for sa_ in near for sb_ in near] + [(sa_, sb_) for sa_ in far for sb_ in far[::3]]
    if ctx.tier == 'quick':
        grid = [(sa_, sb_) for sa_ in near for sb_ in near[::2]] + [(sa_, sb_) for sa_ in far[::2] for sb_ in far[::4]]
    for sa_, sb_ in grid:
        for ka_, kb_ in (('ones', 'ones'), ('lsb', 'lsb'), ('ones', 'lsb')):
            ua_, ub_ = _dense(sa_, ka_), _dense(sb_, kb_)
            if ua_ is None or ub_ is None:
                continue
            seqs.append([('+', ua_, ub_)])
            if (sa_ + sb_) % 3 == 0:
                seqs.append([('-', ua_, ub_)])
    # near maxpos / minpos
    big = p.encode(Fraction(2) ** ((pty.bits - 2) * (1 << pty.es) // 2 - 1))
    seqs.append([('+', big, big), ('+', 1, one)])
    seqs.append([('+', 1, 1)])
    seqs.append([('+', 1, 1), ('+', 1, 1), ('-', 1, 1)])
    I = Interp(prog, max_steps=400000)
    n = 0
    lim = 2 ** (total_bits - 1)
    for seq in seqs:
        st = q.state(q.zero_cell())
        ref = self_ref(st, True)
        exact = Fraction(0)
        ok = True
        for op, a, b in seq:
            pa, pb = p.decode(a), p.decode(b)
            exact += pa * pb if op == '+' else -(pa * pb)
            out = I.run(add if op == '+' else sub, [ref, AAgg('(tuple)', [posit_arg(pty, a, a, 0), posit_arg(pty, b, b, 1)])])
            if out.kind != 'return':
                ctx.finding('QSEQ', q.name, 'seq=' + str(seq).replace(' ', ''), 'accumulate sequence does not return: %s %s at %s' % (out.kind, out.value, out.where))
                ok = False
                break
        if not ok:
            continue
        n += 1
        fields = ref.frame.locals[0].fields
        if not all(isinstance(f, AInt) and f.is_const() for f in fields):
            ctx.count('sequence_undecided')
            continue
        image = 0
        for f, (b, _) in zip(fields, q.fields):
            image = (image << b) | f.uval()
        scaled = exact * (2 ** fb)
        if scaled.denominator != 1 or not (-lim < scaled < lim):
            continue   # outside the quire's exact range: nothing claimed
        want_image = int(scaled) & ((1 << total_bits) - 1)
        if image != want_image:
            ctx.finding('QSEQ', q.name, 'image:' + str(seq).replace(' ', ''), 'after %s the accumulator holds %#x, the exact sum %s is %#x in fixed point' % (seq, image, exact, want_image))
            continue
        out = I.run(tp, [self_ref(ref.frame.locals[0])])
        got = gcr.describe(out.value) if out.kind == 'return' else (out.kind,)
        want = p.encode(exact)
        if got != ('const', want):
            ctx.finding('QSEQ', q.name, 'round:' + str(seq).replace(' ', ''), 'after %s (exact sum %s) to_posit gives %s, the single posit rounding is %#x' % (seq, exact, got, want))
        else:
            ctx.sample({'rule': 'QSEQ', 'quire': q.name, 'sequence': str(seq), 'exact_sum': str(exact), 'to_posit': hex(want)}, limit=14)
    return n


def run(ctx):
    prog = ctx.prog('default')
    ctx.rules += ['QPRED: is_zero / is_nar / to_posit heads on a partition of all accumulator states',
                  'QACC: NaR stickiness and zero operands of every base accumulate spelling (R2 on state x operand cells)',
                  'QSPELL: tuple / array operand spellings expand to the expected base accumulations (term mode)',
                  'R5: accumulated value depends on the add/subtract flag, the operands and the old accumulator']
    npred = nacc = nsp = ndep = 0
    for q in QTYS:
        npred += predicates(ctx, prog, q)
        nacc += accumulate_heads(ctx, prog, q)
        nsp += spellings(ctx, prog, q)
        ndep += dependence(ctx, prog, q)
        nseq = sequence_probes(ctx, prog, q)
        ctx.count('sequence_probes', nseq)
    # R10: to_posit is the single posit-rule rounding of the accumulator's value, for every state: rounding cells (sign, leading-one position, rounding case)
    import rules_rounding
    ctx.trusted += [t for t in rules_rounding.TRUSTED if t not in ctx.trusted]
    ctx.rules.append('R10 rounding cells of the accumulator: (sign, leading-one position, rounding case[, lowest set bit for negative multi-limb states]); '
                     'to_posit vector == correctly rounded encoding of the fixed-point value')
    thorough = ctx.tier == 'thorough'
    rc = rp = 0
    for q in QTYS:
        step = 1 if (thorough or q.nf == 1) else 4
        st = rules_rounding.parallel_quire_to_posit(ctx, prog, 'R10', q, FRAC_BITS[q.name], thorough and q.nf == 1, p_step=step)
        rc += st['cells']
        rp += st['proved']
        if step > 1:
            ctx.notes.append('quick tier: %s::to_posit is checked for every %dth leading-one position plus the four positions at each limb boundary; the thorough tier takes all' % (q.name, step))
    ctx.notes.append('to_posit rounding cells: the sticky position (and, for negative Q16E1/Q32E2 states, the lowest set bit) is sampled (3-4 values per cell) except for Q8E0 in the thorough tier')
    ctx.count('to_posit_rounding_cells', rc)
    ctx.count('to_posit_rounding_cells_proved', rp)
    # QPLACE: every base accumulate spelling applied to the cleared quire with a single posit p (the other factor ONE) leaves exactly +p / -p:
    # to_posit of the result is p resp. -p for every bit pattern p (regime cells; to_posit itself is proved above)
    import rules_routing
    import rules_rounding as RR
    from interp import _static_frame
    ctx.rules.append('QPLACE: (ZERO op p).to_posit() == +/-p for every p and every base spelling (+= p, -= p, +=/-= (p, ONE), (ONE, p), add_product / sub_product)')
    # QIMAGE: q0 += / -= (p, 2^t), (2^t, p), p for every posit p: the accumulator holds exactly q0 +/- p * 2^t afterwards (two's-complement image,
    # bit for bit), from the cleared quire and from a constant whose carry runs through the limbs above the product
    itasks = image_tasks(prog, ctx.tier)
    ist = RR.run_parallel(ctx, prog, itasks, prefix='image_')
    ctx.count('image_cells_total', ist['cells'])
    ctx.count('image_cells_proved_total', ist['proved'])
    ctx.rules.append('QIMAGE: accumulator image after accumulating p * 2^t (every posit p, symbolic) == q0 +/- p * 2^t exactly, incl. carries across limbs')
    ptasks = placement_tasks(prog, ctx.tier)
    st_ = RR.run_parallel(ctx, prog, ptasks, prefix='placement_')
    pc, pp = st_['cells'], st_['proved']
    ctx.count('placement_cells_total', pc)
    ctx.count('placement_cells_proved_total', pp)
    ctx.require('C04 predicate cells decided', npred, 500)
    ctx.require('C04 accumulate head cells decided', nacc, 300)
    ctx.require('C04 operand spellings', nsp, 48)
    ctx.count('dependence_sites', ndep)
    ctx.undecided['general_path'] = 'the accumulate for two dense significands (the multiplier array) and for an arbitrary accumulator; order independence follows from exactness and is not decided separately'
    return LEVEL, ('is_zero/is_nar are decided for every accumulator state (all limbs); to_posit returns 0/NaR exactly there; NaR stickiness and zero operands for every '
                   'base spelling; all tuple/array spellings expand to the right products with the right sign; the accumulated value depends on flag, operands and accumulator; '
                   'to_posit is proved to be the single posit-rule rounding of the fixed-point value of the state on rounding cells covering the accumulator states (sampling as noted).')
