"""C18 - polynomial evaluation wiring (proof of wiring, term mode).

The generic default bodies of `Polynom::polyN` / `poly::Poly::polyNk` are interpreted with a *formal polynomial* domain:
`One::one()` is 1, `Mul::mul(a, b)` is the formal product (its rounding is recorded as a product node), `Quire::init()` starts
a stage, `q += (a, b)` accumulates a*b exactly, `q.into()` closes the stage (one rounding).  The resulting formal polynomial
must equal sum c[i] * x^(n-i) (coefficients highest degree first), the multipliers of every accumulate must be 1, x,
x2 = x*x, x3 = x2*x, x4 = x2*x2 (exactly these rounded products), and the number of quire stages must be the documented one.
"""
from aval import AInt, AAgg, ARef, ASym, ATop
from interp import Interp, _static_frame, Undecided, Unsupported

LEVEL = 'proof'


class PV:
    """formal polynomial with a shape string"""
    __slots__ = ('poly', 'shape', 'kind')

    def __init__(self, poly, shape, kind):
        self.poly = poly    # dict: monomial (tuple of symbols) -> int
        self.shape = shape
        self.kind = kind    # 'x' | 'coef' | 'one' | 'prod' | 'stage' | 'acc'

    @staticmethod
    def sym(name, kind):
        return PV({(name,): 1}, name, kind)

    @staticmethod
    def one():
        return PV({(): 1}, '1', 'one')

    def mul(self, o):
        out = {}
        for m1, c1 in self.poly.items():
            for m2, c2 in o.poly.items():
                m = tuple(sorted(m1 + m2))
                out[m] = out.get(m, 0) + c1 * c2
        return out

    def __repr__(self):
        return 'PV(%s)' % self.shape


def padd(a, b):
    out = dict(a)
    for m, c in b.items():
        out[m] = out.get(m, 0) + c
        if out[m] == 0:
            del out[m]
    return out


STAGES = {1: 1, 2: 1, 3: 1, 4: 1, 5: 2, 6: 2, 7: 2, 8: 2, 9: 3, 10: 3, 11: 3, 12: 3, 13: 4, 14: 4, 15: 4, 16: 4, 17: 5, 18: 5,
          '3a': 2, '4a': 2}
POWER_SHAPES = {'1': 0, 'x': 1, '(x*x)': 2, '((x*x)*x)': 3, '((x*x)*(x*x))': 4}


class PolyHook:
    def __init__(self):
        self.stages = []        # list of list of (multiplier shape, multiplicand shape)
        self.products = []
        self.problems = []

    def __call__(self, I, frame, path, rargs, args, t):
        if path.endswith('One::one'):
            return ASym(PV.one())
        if path == 'core::ops::Mul::mul':
            a, b = args
            if isinstance(a, ASym) and isinstance(b, ASym) and isinstance(a.term, PV) and isinstance(b.term, PV):
                shape = '(%s*%s)' % (a.term.shape, b.term.shape)
                self.products.append(shape)
                return ASym(PV(a.term.mul(b.term), shape, 'prod'))
            self.problems.append('Mul::mul on non-polynomial values')
            return ASym(PV({}, '?', 'prod'))
        if path == 'Quire::init':
            self.stages.append([])
            return ASym(PV({}, 'q%d' % len(self.stages), 'acc'))
        if path == 'core::ops::AddAssign::add_assign':
            q, pair = args
            if isinstance(q, ARef) and isinstance(pair, AAgg) and len(pair.fields) == 2:
                cur = I.read_place(q.frame, {'l': q.local, 'p': q.proj})
                a, b = pair.fields
                if isinstance(cur, ASym) and isinstance(cur.term, PV) and cur.term.kind == 'acc' and all(isinstance(v, ASym) and isinstance(v.term, PV) for v in (a, b)):
                    self.stages[-1].append((a.term.shape, a.term.kind, b.term.shape, b.term.kind))
                    new = PV(padd(cur.term.poly, a.term.mul(b.term)), cur.term.shape, 'acc')
                    I.write_place(q.frame, {'l': q.local, 'p': q.proj}, ASym(new))
                    return AAgg('()', [])
            self.problems.append('unrecognised accumulate')
            return AAgg('()', [])
        if path.endswith('Into<U>>::into'):
            q = args[0]
            if isinstance(q, ASym) and isinstance(q.term, PV) and q.term.kind == 'acc':
                return ASym(PV(dict(q.term.poly), 'round(%s)' % q.term.shape, 'stage'))
            self.problems.append('into() of a non-accumulator')
            return ASym(PV({}, '?', 'stage'))
        if path.startswith('core::slice::index') or path.startswith('core::array::<impl core::ops::Index'):
            base, rng = args
            v = I.read_place(base.frame, {'l': base.local, 'p': base.proj}) if isinstance(base, ARef) else None
            if isinstance(v, AAgg) and isinstance(rng, AAgg):
                n = len(v.fields)
                ty = rng.ty

                def ci(x):
                    return x.lo if isinstance(x, AInt) and x.is_const() else None
                lo, hi = 0, n
                if 'RangeFrom' in ty:
                    lo = ci(rng.fields[0])
                elif 'RangeTo' in ty:
                    hi = ci(rng.fields[0])
                elif 'Range' in ty:
                    lo, hi = ci(rng.fields[0]), ci(rng.fields[1])
                if lo is None or hi is None or not (0 <= lo <= hi <= n):
                    self.problems.append('slice range out of bounds or unknown: %r of len %d' % (rng, n))
                    return ATop('?')
                return ARef(_static_frame(AAgg('[slice]', list(v.fields[lo:hi]))), 0, [])
            self.problems.append('unrecognised slicing')
            return ATop('?')
        return None


def analyse(prog, name):
    cands = [p_ for p_ in prog.bodies if p_ == 'Polynom::poly%s' % name or p_.endswith('::Polynom::poly%s' % name)]
    if len(cands) != 1:
        return None, 'missing Polynom::poly%s' % name
    path = cands[0]
    body = prog.bodies[path]
    n = int(str(name).rstrip('a'))
    hook = PolyHook()
    I = Interp(prog, unknown_callee_top=False)
    I.call_hook = hook
    x = ASym(PV.sym('x', 'x'))
    coeffs = AAgg('[array]', [ASym(PV.sym('c%d' % i, 'coef')) for i in range(n + 1)])
    cref = ARef(_static_frame(coeffs), 0, [])
    out = I.run(path, [x, cref], {})
    if out.kind != 'return':
        return None, 'not straight-line: %s %s %s' % (out.kind, out.value, out.where)
    return (out.value, hook), None


def run(ctx):
    prog = ctx.prog('default')
    ctx.rules.append('term mode with a formal-polynomial domain over the generic default bodies of Polynom / poly::Poly')
    obligations = discharged = 0
    for name in list(range(1, 19)) + ['3a', '4a']:
        label = 'Polynom::poly%s' % name
        obligations += 1
        res, err = analyse(prog, name)
        if err:
            ctx.finding('POLY', label, 'analysis', err)
            continue
        val, hook = res
        n = int(str(name).rstrip('a'))
        problems = list(hook.problems)
        if not (isinstance(val, ASym) and isinstance(val.term, PV)):
            problems.append('result is not a rounded stage')
        else:
            want = {}
            for i in range(n + 1):
                m = tuple(sorted(('c%d' % i,) + ('x',) * (n - i)))
                want[m] = 1
            if val.term.poly != want:
                problems.append('denotes %r instead of sum c[i]*x^(%d-i)' % (val.term.poly, n))
            if val.term.kind != 'stage':
                problems.append('result is not the rounding of a quire stage')
        if len(hook.stages) != STAGES[name]:
            problems.append('%d quire stages, documented %d' % (len(hook.stages), STAGES[name]))
        for st in hook.stages:
            for (ms, mk, cs, ck) in st:
                if ms not in POWER_SHAPES:
                    problems.append('accumulate multiplier %s is not one of 1, x, x*x, (x*x)*x, (x*x)*(x*x)' % ms)
                if ck not in ('coef', 'stage'):
                    problems.append('accumulate multiplicand %s is not a coefficient or a previous stage result' % cs)
        for p_ in hook.products:
            if p_ not in POWER_SHAPES:
                problems.append('rounded product %s is not x*x, (x*x)*x or (x*x)*(x*x)' % p_)
        if problems:
            ctx.finding('POLY', label, 'term', '; '.join(sorted(set(problems))[:4]), {'stages': hook.stages, 'products': hook.products})
        else:
            discharged += 1
            ctx.sample({'fn': label, 'stages': [len(s) for s in hook.stages], 'products': hook.products}, limit=20)
    # the three posit types use the default bodies: their Poly / Polynom impls must be empty
    for ty in ('p8e0::P8E0', 'p16e1::P16E1', 'p32e2::P32E2'):
        for tr in ('Poly', 'Polynom'):
            ims = [im for (t_, s_), v in prog.impl_index.items() if s_ == ty and (t_ == tr or t_.endswith('::' + tr)) for im in v]
            obligations += 1
            if not ims:
                ctx.finding('POLY', '%s for %s' % (tr, ty), 'impl', 'no impl found')
                continue
            over = [it['name'] for im in ims for it in im['items']]
            if over:
                ctx.finding('POLY', '%s for %s' % (tr, ty), 'override', 'impl overrides default methods %s (not analysed as defaults)' % over)
            else:
                discharged += 1
    ctx.cov['obligations'] = obligations
    ctx.cov['discharged'] = discharged
    ctx.cov['checker_cmd'] = './check C18 --tier ' + ctx.tier
    ctx.require('C18 polynomial bodies', obligations, 26)
    ctx.assumptions += ['a quire stage computes the exact sum and rounds once (C04)', 'Mul::mul is the correctly rounded product (C01)',
                        'operator / Into / One spellings forward to the inherent operations (C17)']
    ctx.trusted += ['formal-polynomial call hook in sa/props/c18.py']
    level = LEVEL if obligations == discharged else 'other'
    return level, ('poly1..poly18, poly3a, poly4a: the formal polynomial denoted by the default bodies equals sum c[i]*x^(n-i) with exactly the '
                   'documented rounded powers and quire stages; the three posit types use the defaults.')
