"""C07 - integer conversions: saturation and small-value guard cells (R2), narrow-width forwarders by inlining."""
from fractions import Fraction
import spec as S
from props.common import *
from aval import AInt, AAgg

LEVEL = 'proof'

INTS = {'i8': (8, True), 'i16': (16, True), 'i32': (32, True), 'i64': (64, True), 'isize': (64, True),
        'u8': (8, False), 'u16': (16, False), 'u32': (32, False), 'u64': (64, False), 'usize': (64, False)}


def from_int_spec(pty, bits, signed):
    p = pty.posit

    def spec(xs):
        x = xs[0]
        v = to_signed(x, bits) if signed else x
        return p.encode(Fraction(v))
    return spec


def to_int_spec(pty, bits, signed):
    p = pty.posit
    lo = -(1 << (bits - 1)) if signed else 0
    hi = (1 << (bits - 1)) - 1 if signed else (1 << bits) - 1

    def spec(xs):
        v = p.decode(xs[0])
        if v == S.NAR:
            return None  # convention left open by the property
        return S.to_int_spec(v, lo, hi) & mask(bits)
    return spec


def run(ctx):
    prog = ctx.prog('default')
    ctx.rules.append('R2 guarded-cell results: integer->posit on integer cells, posit->integer on posit cells')
    tot = 0
    wide = ('i32', 'i64', 'u32', 'u64', 'isize', 'usize')     # isize / usize are 64-bit on the analysed target; to_i8/i16/u8/u16 are truncating casts the property does not fix
    for pty in PTYS:
        for iname, (bits, signed) in INTS.items():
            # from_*
            path = anchor(ctx, prog, pty, 'from_' + iname)
            if path:
                lits = lits_for(prog, path, bits, depth=3)
                cells = cuts_to_cells(bits, lits, signed_boundary=True)
                import probes
                have = {c[0] for c in cells if c[0] == c[1]}
                cells += [c for c in probes.singles([v & mask(bits) for v in probes.int_probes(pty, bits, signed)]) if c[0] not in have]

                def mk(cell, bits=bits, signed=signed):
                    lo, hi = cell[0]
                    if signed:
                        lo, hi = to_signed(lo, bits), to_signed(hi, bits)
                    return [int_arg(bits, signed, lo, hi, 0)]
                st = run_cells(ctx, prog, 'GCR', '%s::from_%s' % (pty.name, iname), path, mk, [cells],
                               from_int_spec(pty, bits, signed), pty.bits, exhaustive_limit=256 if bits == 8 else 0)
                tot += decided(st)
            # to_*   (narrow targets are `to_i32() as i8`: truncating casts whose meaning the property does not fix -> only wide ones)
            if iname in wide:
                path = anchor(ctx, prog, pty, 'to_' + iname)
                if path:
                    lits = lits_for(prog, path, pty.bits, depth=3)
                    cells = cuts_to_cells(pty.bits, list(lits) + special_cuts(pty))
                    import probes
                    have = {c[0] for c in cells if c[0] == c[1]}
                    cells += [c for c in probes.singles(probes.posit_probes(pty, 2)) if c[0] not in have]
                    st = run_cells(ctx, prog, 'GCR', '%s::to_%s' % (pty.name, iname), path,
                                   lambda cell, pty=pty: [posit_arg(pty, cell[0][0], cell[0][1], 0)], [cells],
                                   to_int_spec(pty, bits, signed), bits, exhaustive_limit=256 if pty.bits == 8 else 0)
                    tot += decided(st)
    ctx.require('C07 decided cells', tot, 500)
    # R10: every non-zero integer / every non-zero real posit on rounding cells
    import rules_rounding
    ctx.trusted += [t for t in rules_rounding.TRUSTED if t not in ctx.trusted]
    ctx.rules.append('R10 rounding cells: integer->posit per (sign, leading-one position, rounding case); posit->integer per (sign, regime, exponent, rounding case at the units position)')
    ncells = nproved = 0
    zero_ok = zero_n = 0
    from interp import Interp
    I = Interp(prog)
    for pty in PTYS:
        for iname, (bits, signed) in INTS.items():
            path = prog.inherent(pty.tykey, 'from_' + iname)
            if path:
                st = rules_rounding.check_int_to_posit(ctx, prog, 'R10', '%s::from_%s' % (pty.name, iname), path, bits, signed, pty, True)
                ncells += st['cells']
                nproved += st['proved']
                zero_n += 1
                o = I.run(path, [AInt.const(bits, signed, 0)])
                r = rules_rounding.result_int(o.value) if o.kind == 'return' else None
                if r is not None and r.is_const():
                    if r.uval() == 0:
                        zero_ok += 1
                    else:
                        ctx.finding('R10', '%s::from_%s' % (pty.name, iname), 'zero', 'the integer 0 converts to %#x, expected the posit zero' % r.uval(), {'function': path})
            if iname in wide:
                path = prog.inherent(pty.tykey, 'to_' + iname)
                if path:
                    st = rules_rounding.check_posit_to_int(ctx, prog, 'R10', '%s::to_%s' % (pty.name, iname), path, pty, bits, signed, True)
                    ncells += st['cells']
                    nproved += st['proved']
                    zero_n += 1
                    o = I.run(path, [AAgg(pty.tykey, [AInt.const(pty.bits, True, 0)])])
                    r = rules_rounding.result_int(o.value) if o.kind == 'return' else None
                    if r is not None and r.is_const():
                        if r.uval() == 0:
                            zero_ok += 1
                        else:
                            ctx.finding('R10', '%s::to_%s' % (pty.name, iname), 'zero', 'the posit zero converts to %#x, expected 0' % r.uval(), {'function': path})
    ctx.count('zero_cells', zero_n)
    ctx.count('zero_cells_decided', zero_ok)
    ctx.require('C07 rounding cells', ncells, 20000)
    complete = (ncells == nproved and zero_ok == zero_n)
    ctx.cov['obligations'] = ncells + zero_n
    ctx.cov['discharged'] = nproved + zero_ok
    ctx.cov['checker_cmd'] = './check C07 --tier ' + ctx.tier
    if not complete:
        ctx.notes.append('not every obligation was discharged in this run (%d/%d rounding cells, %d/%d zero cells): the verdict of this run is weaker than a proof' % (nproved, ncells, zero_ok, zero_n))
    ctx.undecided['general_path'] = 'nothing when all cells are proved; undecided cells are counted above'
    ctx.notes.append('to_*(NaR) is excluded from the claim (the property leaves the convention open)')
    return (LEVEL if complete else 'other'), ('Every integer of the ten source types and every real-valued posit pattern lies in a rounding cell (sign, leading-one position or regime/exponent, rounding situation; '
                   'remaining bits symbolic) on which the returned bit-vector equals the posit-rule rounding of the integer, resp. the nearest integer (ties to even) clamped to the target type; '
                   'zero separately. Saturation thresholds and small-value branches are additionally decided on interval cells (R2).')
