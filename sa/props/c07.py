"""C07 - integer conversions: saturation and small-value guard cells (R2), narrow-width forwarders by inlining."""
from fractions import Fraction
import spec as S
from props.common import *

LEVEL = 'other'

INTS = {'i8': (8, True), 'i16': (16, True), 'i32': (32, True), 'i64': (64, True), 'isize': (64, True),
        'u8': (8, False), 'u16': (16, False), 'u32': (32, False), 'u64': (64, False), 'usize': (64, False)}


def from_int_spec(pty, bits, signed):
    p = pty.posit

    def spec(xs):
        x = xs[0]
        v = to_signed(x, bits) if signed else x
        return p.encode(Fraction(v))
    return spec


def to_int_spec(pty, bits, signed):
    p = pty.posit
    lo = -(1 << (bits - 1)) if signed else 0
    hi = (1 << (bits - 1)) - 1 if signed else (1 << bits) - 1

    def spec(xs):
        v = p.decode(xs[0])
        if v == S.NAR:
            return None  # convention left open by the property
        return S.to_int_spec(v, lo, hi) & mask(bits)
    return spec


def run(ctx):
    prog = ctx.prog('default')
    ctx.rules.append('R2 guarded-cell results: integer->posit on integer cells, posit->integer on posit cells')
    tot = 0
    wide = ('i32', 'i64', 'u32', 'u64')
    for pty in PTYS:
        for iname, (bits, signed) in INTS.items():
            # from_*
            path = anchor(ctx, prog, pty, 'from_' + iname)
            if path:
                lits = lits_for(prog, path, bits, depth=3)
                cells = cuts_to_cells(bits, lits, signed_boundary=True)
                import probes
                have = {c[0] for c in cells if c[0] == c[1]}
                cells += [c for c in probes.singles([v & mask(bits) for v in probes.int_probes(pty, bits, signed)]) if c[0] not in have]

                def mk(cell, bits=bits, signed=signed):
                    lo, hi = cell[0]
                    if signed:
                        lo, hi = to_signed(lo, bits), to_signed(hi, bits)
                    return [int_arg(bits, signed, lo, hi, 0)]
                st = run_cells(ctx, prog, 'GCR', '%s::from_%s' % (pty.name, iname), path, mk, [cells],
                               from_int_spec(pty, bits, signed), pty.bits, exhaustive_limit=256 if bits == 8 else 0)
                tot += decided(st)
            # to_*   (narrow targets are `to_i32() as i8`: truncating casts whose meaning the property does not fix -> only wide ones)
            if iname in wide:
                path = anchor(ctx, prog, pty, 'to_' + iname)
                if path:
                    lits = lits_for(prog, path, pty.bits, depth=3)
                    cells = cuts_to_cells(pty.bits, list(lits) + special_cuts(pty))
                    import probes
                    have = {c[0] for c in cells if c[0] == c[1]}
                    cells += [c for c in probes.singles(probes.posit_probes(pty, 2)) if c[0] not in have]
                    st = run_cells(ctx, prog, 'GCR', '%s::to_%s' % (pty.name, iname), path,
                                   lambda cell, pty=pty: [posit_arg(pty, cell[0][0], cell[0][1], 0)], [cells],
                                   to_int_spec(pty, bits, signed), bits, exhaustive_limit=256 if pty.bits == 8 else 0)
                    tot += decided(st)
    ctx.require('C07 decided cells', tot, 500)
    ctx.undecided['general_path'] = 'leading-bit search and guard/sticky rounding on the general path; the scale>=62 shift path of convert_p32bits_to_u64'
    ctx.notes.append('to_*(NaR) is excluded from the claim (the property leaves the convention open)')
    return LEVEL, ('Saturation thresholds, small-value branches and sign handling of 30 from_* and 12 to_* functions decided per cell; '
                   'from_i8/i16/isize/u8/u16/usize are analysed through their forwarding casts (inlined).')
