"""C11 - P16E1 / P8E0 elementary functions: literal tables (R4) and guard cells (R2) against a high-precision oracle."""
import spec as S
import spec_math
from props.common import *

LEVEL = 'other'
P16_FUNCS = ['exp', 'exp2', 'ln', 'log2', 'sin_pi', 'cos_pi', 'tan_pi', 'asin_pi', 'acos_pi', 'atan_pi']


def mspec(pty, fname):
    p = pty.posit

    def spec(xs):
        return spec_math.rounded(p, fname, xs[0])
    return spec


def run(ctx):
    prog = ctx.prog('default')
    ctx.rules += ['R4 literal tables (EXP8, LOG8) vs correctly rounded values for all 256 inputs (index term + table contents)',
                  'R2 guarded-cell results of the ten P16E1 functions on cells cut at every hard-coded cut-off']
    tot = 0
    for name in ('exp', 'ln'):
        path = anchor(ctx, prog, P8, name)
        if not path:
            continue
        cells = cuts_to_cells(8, list(lits_for(prog, path, 8, depth=0)) + special_cuts(P8))
        st = run_cells(ctx, prog, 'TABLE', 'P8E0::%s' % name, path,
                       lambda cell: [posit_arg(P8, cell[0][0], cell[0][1], 0)], [cells], mspec(P8, name), 8, exhaustive_limit=256)
        tot += decided(st)
        ctx.count('p8_points_decided_' + name, st['points_decided'])
        if st['points_decided'] != 256:
            ctx.finding('TABLE', 'P8E0::%s' % name, 'coverage', 'only %d of 256 inputs are decided (the function is no longer a guarded table lookup)' % st['points_decided'])
    exh = 65536 if ctx.tier == 'thorough' else 64
    for name in P16_FUNCS:
        path = anchor(ctx, prog, P16, name)
        if not path:
            continue
        cells = cuts_to_cells(16, list(lits_for(prog, path, 16, depth=1)) + special_cuts(P16))
        st = run_cells(ctx, prog, 'GCR', 'P16E1::%s' % name, path,
                       lambda cell: [posit_arg(P16, cell[0][0], cell[0][1], 0)], [cells], mspec(P16, name), 16, exhaustive_limit=exh)
        tot += decided(st)
        ctx.count('p16_points_decided_' + name, st['points_decided'])
    # kernel probes: constant propagation through the fixed-point kernels at definition-derived arguments (every 1/64th of the encoding space,
    # the posit probes, and the arguments with simple exact images); the result must be the correctly rounded value (singleton verdicts only)
    import probes
    import rules_rounding

    step = 1    # every encoding in both tiers (about 2 min on 16 cores)
    jobs = []
    for name in P16_FUNCS:
        path = prog.inherent(P16.tykey, name)
        if not path:
            continue
        pts = sorted(set(list(range(0, 1 << 16, step)) + probes.posit_probes(P16, 2)))
        jobs.append(dict(rule='GCR', label='P16E1::%s' % name, path=path, pty=P16, points=[(u,) for u in pts], spec=mspec(P16, name),
                         key_label='P16E1::%s' % name))
    n = run_points_parallel(ctx, prog, jobs, chunk=1024, prefix='kernel_probe_')
    ctx.count('kernel_probe_points_total', n)
    ctx.count('kernel_probe_encoding_step', step)
    ctx.rules.append('kernel probes: the ten P16E1 functions at every %s encoding and the specification-critical encodings vs the 400-bit oracle'
                     % ('8th' if step == 8 else 'single'))
    if step == 1:
        ctx.notes.append('every one of the 2^16 encodings of each of the ten P16E1 functions is decided singly (enumeration of singleton cells); '
                         'points whose correct rounding the 400-bit oracle cannot certify are skipped and counted')
    ctx.require('C11 decided cells', tot, 400)
    ctx.trusted += ['mpmath 1.3 at 400 bits with a two-sided margin test (a point whose rounding is not certain is skipped, never guessed)']
    ctx.undecided['general_path'] = 'the fixed-point polynomial kernels between the cut-offs are decided at the probe points only (singleton verdicts): every encoding, in both tiers'
    return LEVEL, ('P8E0::exp and P8E0::ln are decided for all 256 inputs (table index term, bounds, every entry against the correctly rounded value); the ten P16E1 '
                   'functions are decided on every cell in front of the polynomial kernels: NaR, domain errors, exact zeros, saturation and "rounds to 1" cut-offs.')
