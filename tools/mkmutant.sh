#!/bin/bash
# usage: mkmutant.sh <name> <PROP> <sed-script> <file>   -> writes selftest/mutants/<name>.patch (or benign/ if name starts with benign_)
set -euo pipefail
NAME="$1"; PROP="$2"; SCRIPT="$3"; FILE="$4"
W=$(mktemp -d /tmp/mkmut.XXXXXX); trap 'rm -rf "$W"' EXIT
git -C /repo archive HEAD | tar -x -C "$W"
cd "$W"; git init -q; git add -A; git -c user.email=a@b -c user.name=x commit -qm base
sed -i -E "$SCRIPT" "$FILE"
if git diff --quiet; then echo "mutant $NAME: sed script changed nothing"; exit 1; fi
DIR=/verif/selftest/mutants; case "$NAME" in benign_*) DIR=/verif/selftest/benign;; esac
{ echo "# property: $PROP"; git diff; } > "$DIR/$NAME.patch"
echo "wrote $DIR/$NAME.patch"
