#!/bin/bash
# usage: runmutant.sh <patch> [PROP ...]  : applies the patch to a scratch copy of /repo, checks it builds, runs the checks against it
set -uo pipefail
PATCH="$(readlink -f "$1")"; shift
PROPS="$@"
[ -n "$PROPS" ] || PROPS=$(sed -n 's/^# property: //p' "$PATCH")
W=$(mktemp -d /tmp/runmut.XXXXXX); trap 'rm -rf "$W"' EXIT
git -C /repo archive HEAD | tar -x -C "$W"
cp /repo/Cargo.lock "$W"/ 2>/dev/null
( cd "$W" && grep -v '^# ' "$PATCH" | patch -p1 -s ) || { echo "PATCH FAILED"; exit 3; }
for P in $PROPS; do
  OUT=$(cd /verif && VERIF_REPO="$W" VERIF_NO_EVIDENCE=1 ./check "$P" 2>&1); RC=$?
  NV=$(echo "$OUT" | grep -c '^VIOLATION')
  echo "$(basename "$PATCH") $P rc=$RC violations=$NV"
  echo "$OUT" | grep '^FINDING' | cut -c1-260 | head -${SHOW:-3}
done
