// One-off generator of "hard to round" arguments of the square root for a posit format whose argument and result both carry FB fraction
// bits (P32E2 around one: FB = 27).  Independent of the crate: uses only integer arithmetic on the format definition.
// For every significand X in [2^FB, 2^(FB+1)) and exponent parity e in {0,1} the exact root of T = X * 2^(FB+e) is compared with the
// rounding midpoint (2*Y0+1)/2, Y0 = isqrt(T); d = 4T - (2*Y0+1)^2 measures the (signed) distance.  The K arguments with the smallest |d|
// per parity are printed as "e X d".
// Mode "edges" (argv[3] = number of top fraction bits B that select a bin of a table-driven method, argv[4] = log2 of the window width):
// a Newton-Raphson root that starts from a piecewise-linear table has its largest residual at the two edges and in the middle of every
// bin, so an error-budget regression shows first on the hardest-to-round arguments *there*.  For every parity, every bin of the top B
// fraction bits and each of the three windows (low edge, middle, high edge) the K arguments with the smallest positive d and the K with
// the smallest negative d are printed.  run: ./gen_sqrt_hard 27 512 3 19 > sqrt_hard_edges_fb27.txt
// build: cc -O2 -o gen_sqrt_hard gen_sqrt_hard.c -lm ; run: ./gen_sqrt_hard 27 400 > sqrt_hard_fb27.txt
#include <stdio.h>
#include <stdlib.h>
#include <stdint.h>
#include <math.h>
typedef struct { int64_t ad; int64_t d; uint64_t x; } rec;
static int cmp(const void *a, const void *b) { int64_t x = ((const rec*)a)->ad, y = ((const rec*)b)->ad; return x < y ? -1 : x > y; }
static int64_t dist(uint64_t X, int FB, int e) {
    uint64_t T = X << (FB + e);
    uint64_t y = (uint64_t)sqrt((double)T);
    while (y * y > T) y--;
    while ((y + 1) * (y + 1) <= T) y++;
    uint64_t m = 2 * y + 1;
    return (int64_t)(4 * T) - (int64_t)(m * m);
}
static void window(int FB, int e, uint64_t lo, uint64_t hi, int K, int sign) {
    rec *best = malloc(sizeof(rec) * (size_t)(2 * K + 2)); int nb = 0; int64_t thr = INT64_MAX;
    for (uint64_t X = lo; X < hi; X++) {
        int64_t d = dist(X, FB, e);
        if ((sign > 0) != (d > 0)) continue;
        int64_t ad = d < 0 ? -d : d;
        if (ad < thr) {
            best[nb].ad = ad; best[nb].d = d; best[nb].x = X; nb++;
            if (nb >= 2 * K) { qsort(best, nb, sizeof(rec), cmp); nb = K; thr = best[K - 1].ad; }
        }
    }
    qsort(best, nb, sizeof(rec), cmp); if (nb > K) nb = K;
    for (int i = 0; i < nb; i++) printf("%d %llu %lld\n", e, (unsigned long long)best[i].x, (long long)best[i].d);
    free(best);
}
int main(int argc, char **argv) {
    int FB = argc > 1 ? atoi(argv[1]) : 27, K = argc > 2 ? atoi(argv[2]) : 400;
    if (argc > 4) {
        int B = atoi(argv[3]); uint64_t W = 1ull << atoi(argv[4]);
        for (int e = 0; e < 2; e++) for (uint64_t b = 0; b < (1ull << B); b++) {
            uint64_t lo = (1ull << FB) + (b << (FB - B)), hi = lo + (1ull << (FB - B)), mid = lo + (1ull << (FB - B - 1));
            for (int sign = -1; sign <= 1; sign += 2) {
                window(FB, e, lo, lo + W, K, sign);
                window(FB, e, mid - W / 2, mid + W / 2, K, sign);
                window(FB, e, hi - W, hi, K, sign);
            }
        }
        return 0;
    }
    for (int e = 0; e < 2; e++) {
        rec *best = malloc(sizeof(rec) * (size_t)(2 * K + 2)); int nb = 0; int64_t thr = INT64_MAX;
        for (uint64_t X = 1ull << FB; X < (2ull << FB); X++) {
            uint64_t T = X << (FB + e);
            uint64_t y = (uint64_t)sqrt((double)T);
            while (y * y > T) y--;
            while ((y + 1) * (y + 1) <= T) y++;
            uint64_t m = 2 * y + 1;
            int64_t d = (int64_t)(4 * T) - (int64_t)(m * m);
            int64_t ad = d < 0 ? -d : d;
            if (ad < thr) {
                best[nb].ad = ad; best[nb].d = d; best[nb].x = X; nb++;
                if (nb >= 2 * K) { qsort(best, nb, sizeof(rec), cmp); nb = K; thr = best[K - 1].ad; }
            }
        }
        qsort(best, nb, sizeof(rec), cmp); if (nb > K) nb = K;
        for (int i = 0; i < nb; i++) printf("%d %llu %lld\n", e, (unsigned long long)best[i].x, (long long)best[i].d);
        free(best);
    }
    return 0;
}
