// One-off generator of "hard to round" arguments of the square root for a posit format whose argument and result both carry FB fraction
// bits (P32E2 around one: FB = 27).  Independent of the crate: uses only integer arithmetic on the format definition.
// For every significand X in [2^FB, 2^(FB+1)) and exponent parity e in {0,1} the exact root of T = X * 2^(FB+e) is compared with the
// rounding midpoint (2*Y0+1)/2, Y0 = isqrt(T); d = 4T - (2*Y0+1)^2 measures the (signed) distance.  The K arguments with the smallest |d|
// per parity are printed as "e X d".
// build: cc -O2 -o gen_sqrt_hard gen_sqrt_hard.c -lm ; run: ./gen_sqrt_hard 27 400 > sqrt_hard_fb27.txt
#include <stdio.h>
#include <stdlib.h>
#include <stdint.h>
#include <math.h>
typedef struct { int64_t ad; int64_t d; uint64_t x; } rec;
static int cmp(const void *a, const void *b) { int64_t x = ((const rec*)a)->ad, y = ((const rec*)b)->ad; return x < y ? -1 : x > y; }
int main(int argc, char **argv) {
    int FB = argc > 1 ? atoi(argv[1]) : 27, K = argc > 2 ? atoi(argv[2]) : 400;
    for (int e = 0; e < 2; e++) {
        rec *best = malloc(sizeof(rec) * (size_t)(2 * K + 2)); int nb = 0; int64_t thr = INT64_MAX;
        for (uint64_t X = 1ull << FB; X < (2ull << FB); X++) {
            uint64_t T = X << (FB + e);
            uint64_t y = (uint64_t)sqrt((double)T);
            while (y * y > T) y--;
            while ((y + 1) * (y + 1) <= T) y++;
            uint64_t m = 2 * y + 1;
            int64_t d = (int64_t)(4 * T) - (int64_t)(m * m);
            int64_t ad = d < 0 ? -d : d;
            if (ad < thr) {
                best[nb].ad = ad; best[nb].d = d; best[nb].x = X; nb++;
                if (nb >= 2 * K) { qsort(best, nb, sizeof(rec), cmp); nb = K; thr = best[K - 1].ad; }
            }
        }
        qsort(best, nb, sizeof(rec), cmp); if (nb > K) nb = K;
        for (int i = 0; i < nb; i++) printf("%d %llu %lld\n", e, (unsigned long long)best[i].x, (long long)best[i].d);
        free(best);
    }
    return 0;
}
