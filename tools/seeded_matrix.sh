#!/bin/bash
# usage: seeded_matrix.sh [ids...]   - applies every stored seeded change (or the named ones) to a scratch copy of /repo HEAD and runs the
# check of its own property (plus the extra ones listed in meta.json "also") against it; prints one line per (change, check).
cd /verif
IDS="${@:-$(ls seeded | grep -v '^benign')}"
run_one() {
  id="$1"; d="/verif/seeded/$id"
  prop=$(echo "$id" | sed 's/^r[0-9]*-//; s/-.*//')
  also=$(python3 -c "import json,sys; print(' '.join(json.load(open('$d/meta.json')).get('also',[])))" 2>/dev/null)
  W=$(mktemp -d /tmp/seedmx.XXXXXX)
  mkdir -p "$W/repo" "$W/facts"
  git -C /repo archive HEAD | tar -x -C "$W/repo"; cp /repo/Cargo.lock "$W/repo"/ 2>/dev/null
  (cd "$W/repo" && patch -p1 -s < "$d/patch.diff") || { echo "$id: PATCH DOES NOT APPLY"; rm -rf "$W"; return; }
  for P in $prop $also; do
    OUT=$(VERIF_REPO="$W/repo" VERIF_FACTS_DIR="$W/facts" VERIF_NO_EVIDENCE=1 VERIF_REPLAY_DIR="$W/replay" ./check "$P" 2>&1); RC=$?
    rules=$(echo "$OUT" | grep '^FINDING' | sed 's/^FINDING [^/]*\/\([^/]*\)\/.*/\1/' | sort | uniq -c | tr '\n' ' ')
    echo "$id: $P rc=$RC violations=$(echo "$OUT" | grep -c '^VIOLATION') rules: $rules"
    echo "$OUT" | grep '^FINDING' | head -1 | cut -c1-240
  done
  rm -rf "$W"
}
export -f run_one
printf '%s\n' $IDS | xargs -P ${JOBS:-5} -I{} bash -c 'run_one {}'
