#!/bin/bash
# usage: keepseed.sh <round> <PROP> "<status text>"  - stores /tmp/w<round>-<PROP>-out as /verif/seeded/r<round>-<PROP> and removes the scratch worktree
R="$1"; P="$2"; ST="$3"; SRC=/tmp/w$R-$P-out; DST=/verif/seeded/r$R-$P
mkdir -p "$DST"; cp "$SRC/patch.diff" "$SRC/demo.rs" "$DST/"
python3 - "$SRC/meta.json" "$DST/meta.json" "$ST" <<'PY'
import json,sys
m=json.load(open(sys.argv[1])); m['status']=sys.argv[3]; json.dump(m,open(sys.argv[2],'w'),indent=1)
PY
git -C /repo worktree remove --force /tmp/w$R-$P 2>/dev/null; rm -rf /tmp/w$R-$P /tmp/w$R-$P-out
echo kept $DST
