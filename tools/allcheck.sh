#!/bin/bash
# usage: allcheck.sh <name> <patch-file | -> [PROP...]
# applies a patch to a scratch copy of /repo HEAD (outside /repo and /verif), confirms it builds and the suite passes, and runs every
# quick check (or the named ones) against the copy in parallel.  Prints one line per check; used for benign refactorings (must stay silent).
set -uo pipefail
NAME="$1"; PATCH="$2"; shift 2; PROPS="${@:-C01 C02 C03 C04 C05 C06 C07 C08 C09 C10 C11 C12 C13 C14 C15 C16 C17 C18 C19}"
[ "$PATCH" = "-" ] || PATCH=$(readlink -f "$PATCH")
W=$(mktemp -d /tmp/allchk.XXXXXX); trap 'rm -rf "$W"' EXIT
mkdir -p "$W/repo" "$W/facts" "$W/out"
git -C /repo archive HEAD | tar -x -C "$W/repo"; cp /repo/Cargo.lock "$W/repo"/ 2>/dev/null
if [ "$PATCH" != "-" ]; then (cd "$W/repo" && patch -p1 -s < "$PATCH") || { echo "$NAME: PATCH DOES NOT APPLY"; exit 3; }; fi
if [ -z "${SKIP_SUITE:-}" ]; then
  SUITE=$(cd "$W/repo" && CARGO_TARGET_DIR=$W/target cargo test --offline --lib 2>&1 | grep -E "^test result|^error" | head -2 | tr '\n' ' ')
  echo "$NAME: suite: $SUITE"; rm -rf "$W/target"
fi
cd /verif
for cfg in default all; do
  if [ $cfg = all ]; then F="--features std,rand,linalg"; else F=""; fi
  VERIF_REPO="$W/repo" sa/extract.sh "$W/facts/facts_$cfg.json" $cfg $F >"$W/out/extract_$cfg.log" 2>&1 &
done
wait
ls "$W/facts"/facts_default.json "$W/facts"/facts_all.json >/dev/null || { echo "$NAME: EXTRACTION FAILED"; cat "$W"/out/extract_*.log | tail -20; exit 3; }
printf '%s\n' $PROPS | xargs -P ${JOBS:-8} -I{} sh -c "VERIF_REPO=$W/repo VERIF_FACTS_DIR=$W/facts VERIF_NO_EVIDENCE=1 VERIF_REPLAY_DIR=$W/replay ./check {} > $W/out/{}.out 2>&1; echo \"$NAME: {} rc=\$? \$(tail -1 $W/out/{}.out)\""
grep -h '^FINDING' "$W"/out/C*.out | cut -c1-${WIDTH:-300}
