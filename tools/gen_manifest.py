#!/usr/bin/env python3
"""regenerates /verif/MANIFEST.json from the table below"""
import json, os
HERE = os.path.dirname(os.path.dirname(os.path.abspath(__file__)))

TRUST = ('rustc MIR construction and Instance resolution (nightly 1.97); hand-written transfer functions for core integer '
         'intrinsics (listed in evidence trusted_base); the Python specification oracle (exact rationals); language definition of as-casts')

CHECKS = {
    'C09': dict(
        level='other',
        technique='symbolic bit-vector abstract interpretation of MIR on rounding cells (sign x scale x rounding situation; remaining bits symbolic): result vector == correctly rounded encoding, may-mode path enumeration for undecided tests, concrete confirmation before any alarm at the units position; term-mode wiring of fract',
        text=('round (ties to even), floor, ceil and trunc of P8E0/P16E1/P32E2 are proved for every bit pattern on rounding cells at the units position; zero and NaR separately; fract is proved to be self.sub(self.trunc()). That this subtraction is exact is the correctness of posit subtraction on a representable difference (C01), assumed and NOT decided here.'),
        design='4/C09'),
}

CHECKS.update({
    'C01': dict(level='other', technique='abstract interpretation of MIR per operand-pair cell vs exact rational oracle; symbolic bit-vector rounding cells with one symbolic operand; enumeration of singleton cells (P8E0: every operand pair) and directed probe families',
        text=('Decides the NaR/zero algebra and guard evaluation order of + - * / for all operand pairs of each control-determinate cell; proves a +/- b correctly rounded for a constant a (2^s*1.0 or 2^s*1.1..1) and every b of each regime cell '
              'for which the exact result is a routing of the bits of b, and b*2^t, 2^t*b, b/2^t for every b (rounding cells with one symbolic operand: alignment, sticky collection, carry, borrow, rounding, saturation; both operand orders and signs); '
              'all 2^16 operand pairs of the four P8E0 operations, and rounding-matrix and specification-critical operand pairs of P16E1 / P32E2, are decided singly by constant propagation. P16E1 / P32E2 pairs of two dense significands and the multiplier/divider beyond the probed pairs are NOT decided.'), design='4/C01'),
    'C02': dict(level='proof', technique='symbolic bit-vector abstract interpretation of MIR on rounding cells (sign x scale x rounding situation; remaining bits symbolic): result vector == correctly rounded encoding, may-mode path enumeration for undecided tests, concrete confirmation before any alarm; interval cells for zero/subnormal/inf/NaN',
        text=('Every finite non-zero normal f32/f64 lies in exactly one rounding cell (sign, exponent, rounding situation of the target) on which the six from_f32/from_f64 conversions return bit-for-bit the posit-rule rounding (nearest, ties to even encoding, saturating, never zero); zeros, subnormals, infinities and NaNs are decided on interval cells. Hence from_f32(x) == from_f64(x as f64). Quick tier samples the sticky position / carry run for f64->P32E2 only; thorough takes every cell.'), design='4/C02'),
    'C06': dict(level='other', technique='abstract interpretation per cell + literal-table agreement with exact integer square roots + enumeration of singleton cells (constant propagation through the MIR): every P16E1 encoding, hard-to-round P32E2 arguments',
        text=('P8E0::sqrt decided for all 256 inputs (table indexing term + every table entry vs exact root); P16E1::sqrt decided for all 2^16 encodings (negative half as one cell, every non-negative encoding singly); P32E2: NaR, negative, zero and literal cut-point cells, '
              'perfect squares, the hardest-to-round arguments around one and the hardest-to-round arguments next to the edges / middle of every bin of the reciprocal-root table decided singly. The P32E2 Newton-Raphson path between those arguments is NOT decided.'), design='4/C06'),
    'C07': dict(level='proof', technique='symbolic bit-vector abstract interpretation of MIR on rounding cells (sign x scale x rounding situation; remaining bits symbolic): result vector == correctly rounded encoding, may-mode path enumeration for undecided tests, concrete confirmation before any alarm',
        text=('Every integer of the ten source types (cells: sign x leading-one position x rounding situation) converts to the posit-rule rounding of its value for P8E0/P16E1/P32E2, and every real-valued posit pattern (cells: sign x regime x exponent x rounding situation at the units position) converts to the nearest integer, ties to even, clamped to i32/u32/i64/u64; zero separately. to_*(NaR) is excluded (convention left open).'), design='4/C07'),
    'C08': dict(level='proof', technique='bit-routing equality per regime cell (widening, widen-then-narrow) + symbolic bit-vector abstract interpretation of MIR on rounding cells (sign x scale x rounding situation; remaining bits symbolic): result vector == correctly rounded encoding, may-mode path enumeration for undecided tests, concrete confirmation before any alarm',
        text=('The three widening conversions are exact for every bit pattern, widen-then-narrow is the identity, and the three narrowing conversions return the posit-rule rounding for every bit pattern (both spellings from_*/to_* of all six); zero and NaR on interval cells.'), design='4/C08'),
})

CHECKS.update({
    'C05': dict(level='other', technique='abstract interpretation per operand-triple cell + program-dependence slice (necessary dependence on the selector) + symbolic bit-vector rounding cells with one symbolic operand + directed probe families',
        text=('Decides NaR propagation, zero-product results and operand order of mul_add / mul_sub / sub_product per cell; requires the general-path result of each '
              'kernel to depend on the operation selector (otherwise the three operations coincide); proves the fused family correctly rounded when one factor is 2^t, the addend a constant (2^s*1.0 / 2^s*1.1..1) and the other factor any posit of a regime cell (rounding cells with one symbolic operand); '
              'fused rounding-matrix, sparse-product (carry-out + tie + lone lowest product bit) and ternary probes decided singly. Dense x dense products and cancellation beyond the probed triples NOT decided.'), design='4/C05'),
    'C17': dict(level='proof', technique='symbolic term evaluation of MIR (forwarder wiring): term(forwarder) == term(expected inherent target)',
        text=('Every operator / From / num_traits / Quire trait method of the three posit and three quire types is proved to denote the expected inherent target applied '
              'to its parameters in order (or the expected named constant); AssociatedQuire and type aliases from the impl/alias tables. Obligations = forwarders + table entries; all discharged.'),
        design='4/C17'),
})

CHECKS.update({
    'C10': dict(level='proof', technique='abstract interpretation on order cells partitioning all argument tuples + comparison-only dataflow check',
        text=('eq/cmp/lt/le/gt/ge/min/max/clamp, derived PartialEq/PartialOrd/Ord, Float::max/min, neg, abs, signum, copysign, is_sign_*, is_zero, is_nar/is_nan/is_finite, classify '
              'for P8E0/P16E1/P32E2 and the comparison fns + Neg of PxE1/PxE2 (these also per width on N-bit order cells: N in {2,3,8,16,31,32} quick, every N thorough) are evaluated exactly on a partition of all argument tuples; every obligation is discharged and the result '
              '(an argument, its negation or a constant) agrees with the order of the represented reals.'), design='4/C10'),
})

CHECKS.update({
    'C03': dict(level='proof', technique='bit-level abstract interpretation (symbolic bit-vector routing) per regime cell partitioning all encodings',
        text=('to_f32/to_f64 of P8E0 and P16E1 and to_f64 of P32E2 are proved exact for every bit pattern: on each regime cell (sign x regime run x exponent bits, fraction bits symbolic) the result is '
              'bit-for-bit the specified routing; zero/NaR cells; P32E2::to_f32 = `to_f64() as f32`; Display/FromStr wiring through f64; posit -> float -> posit is proved the identity for every pattern by composing the two routings per regime cell (856 cells). float -> posit -> float needs C02 on the general path and is NOT claimed.'),
        design='4/C03'),
    'C04': dict(level='other', technique='abstract interpretation on accumulator-state x operand cells, term-mode expansion of operand spellings, dependence slices, symbolic bit-vector cells: rounding cells of the accumulator (to_posit), exact accumulator image of p * 2^t (QIMAGE), exact placement (QPLACE); directed accumulate sequences',
        text=('is_zero/is_nar decided for every accumulator state (all limbs), to_posit returns 0/NaR exactly there; NaR stickiness and zero operands for all base spellings; every tuple/array `+=`/`-=` spelling expands to the '
              'expected products with the expected sign; every base spelling applied to the cleared quire with one posit (other factor ONE) leaves exactly +/-p for every p; accumulated value depends on flag, operands, accumulator; to_posit is proved to be the single posit-rule rounding of the fixed-point value of the state on rounding cells of the accumulator (every state for Q8E0; every leading-one position - quick tier for Q32E2: every 4th plus the four positions at each limb boundary - with sampled sticky / lowest-set-bit positions for Q16E1 and Q32E2); accumulate sequences whose exact sum is a tie, a near-tie or cancels are decided singly. After accumulating p * 2^t (every posit p, symbolic) onto the cleared quire or onto a constant with a carry chain the accumulator holds exactly the fixed-point image of the sum (QIMAGE). The accumulate of two dense significands onto an arbitrary accumulator is NOT decided beyond the probed sequences.'), design='4/C04'),
    'C12': dict(level='other', technique='term-mode evaluation + state-cell abstract interpretation + symbolic bit routing per regime cell (round trip, exact placement of a single posit)',
        text=('from_bits(to_bits(q)) = q, clear(), neg() on every zero/non-zero limb pattern (incl. 512-bit Q32E2), the to_posit / -= alternation of into_two/three_posits, From<P> for Q = ZERO += (p, ONE); '
              'posit->quire->posit proved the identity for every P8E0, P16E1 and P32E2 bit pattern (regime cells refined by the lowest set fraction bit); q += p / q -= p on the cleared quire leave exactly +p / -p for every p. Exactness of the subtractions inside the residual split for a non-zero accumulator NOT decided.'), design='4/C12'),
    'C18': dict(level='proof', technique='term-mode abstract interpretation with a formal-polynomial domain over the generic default bodies',
        text=('poly1..poly18, poly3a, poly4a denote sum c[i]*x^(n-i) with exactly the documented rounded powers (x*x, x2*x, x2*x2) and quire stages; the three posit types use the default bodies. '
              'Assumes a quire stage is the exact sum rounded once (C04) and * is the rounded product (C01).'), design='4/C18'),
})

CHECKS.update({
    'C13': dict(level='other', technique='abstract interpretation per bound N on N-bit pattern cells + unit/layout dataflow (R8) + selector dependence slice (R5) + symbolic bit-vector rounding cells with one symbolic operand + directed probe families',
        text=('NaR/zero algebra, N==2 branches and guard cells of + - * / mul_add mul_sub sub_product sqrt round of PxE1<N>/PxE2<N> per bound N (quick: 8 widths, thorough: all 31); '
              'exponent extraction and regime scaling must use the units of the decoding type; the kernel result must depend on the selector. N-bit rounding on the general path and the '
              'rounding cells with one symbolic operand (as in C01 / C05) on PxE2<N> + - * / and the fused family and on PxE1<N> * / for N in {8,32} (thorough: 16 too); rounding-matrix, fused and sparse-product probes of the N-bit format decided singly for N in {5,8,16,32}; every operand pair of + - * / for N <= 6 (thorough: <= 8) and every operand of sqrt / round for N <= 12 (thorough: <= 16) decided singly. PxE2<32>==P32E2 / PxE1<16>==P16E1 equivalences are NOT decided. 24 genuine defects of the generic kernels are listed as known findings.'), design='4/C13'),
    'C14': dict(level='other', technique='abstract interpretation per bound N (and per (M,N) pair) on source cells + bit routing per regime cell for to_f64 + symbolic bit-vector rounding cells for the posit <-> posit conversions',
        text=('Zero/NaR preservation, N==2 and saturation cells, integer heads of all generic-width conversions per bound N; to_f64 exact by routing; fixed <-> generic and generic -> generic posit conversions proved correctly rounded on rounding cells for the analysed widths (sticky position sampled); from_f64 decided on probe floats. '
              'Integer <-> generic conversions beyond the guard cells and quire->PxE2 NOT decided. 12 genuine defects listed as known findings.'), design='4/C14'),
})

CHECKS.update({
    'C11': dict(level='other', technique='literal-table agreement + abstract interpretation per cell against a 400-bit oracle with margin test + enumeration of singleton cells: constant propagation through the kernels at every encoding',
        text=('P8E0::exp and P8E0::ln decided for all 256 inputs (table index term, bounds, every entry vs the correctly rounded value); the ten P16E1 functions decided on every cell in front of '
              'the polynomial kernels (NaR, domain errors, exact zeros, saturation, rounds-to-1 cut-offs; thorough tier checks every point of each decided cell); every one of the 2^16 encodings of each of the ten P16E1 functions is decided singly by constant propagation through the fixed-point kernel and must be the correctly rounded value (400-bit oracle; points it cannot certify are skipped and counted). These are per-input verdicts (enumeration), not a symbolic proof of the kernels.'),
        design='4/C11'),
    'C15': dict(level='other', technique='abstract interpretation (constant / interval propagation through the SLEEF-style bodies) on NaR and out-of-domain cells; constant rule on the Cody-Waite split constants; constant propagation at probe points with run-time trait resolution',
        text=('NaR input gives NaR and out-of-domain arguments (ln/log2 of x<=0, asin/acos of |x|>1) give NaR for the 16 P32E2 functions; the three-part splits of pi, ln 2 and log10 2 used by the argument reductions are correctly rounded splits of the real constants; ULP probes: each function is evaluated by constant propagation through its whole body at about 3500 points (quick; more in the thorough tier) - definition-derived arguments, a structured sweep of each documented domain (binades x fraction patterns x signs) and the encodings next to every literal the function compares its argument with - and must stay within the stated bound of the 400-bit oracle. The ULP bounds away from those points are NOT decided (no claim).'),
        design='4/C15'),
})

CHECKS.update({
    'C19': dict(level='other', technique='path-sensitive abstract interpretation (may-mode with branch refinement, cell refinement of the generator range): range proof',
        text=('Every path of the three Standard samplers returns an encoding in [0, ONE) - a real posit p with 0 <= p < 1 - and reaches no failing assertion, for every value gen_range can return '
              '(rand contract trusted). P32E2 uses an interval summary of exact subtraction (assumes C01). A failing proof is turned into a definite witness by pinning the generator.'),
        design='4/C19'),
})

CHECKS.update({
    'C16': dict(level='other', technique='abstract-interpretation totality sweep over all externally reachable functions + path-sensitive decoder-precondition proofs + cross-profile MIR diff',
        text=('Every externally reachable function with posit / quire / integer / float parameters is swept on a partition of its inputs for determinate panics, failing overflow / shift / bounds assertions and '
              'non-termination (findings keyed by failing site and by public entry); whole-body todo!() stubs and the clamp contract are exempt. The bodies are identical across build profiles up to overflow assertions '
              '(no debug_assert / cfg(debug_assertions)). The ~2800 overflow assertions of the general arithmetic paths are NOT discharged. 31 genuine defects are listed as known findings.'),
        design='4/C16'),
})

NOT_APPLICABLE = {
}

ALL = ['C%02d' % i for i in range(1, 20)]


def main():
    checks = []
    for pid in ALL:
        if pid not in CHECKS:
            continue
        c = CHECKS[pid]
        checks.append({
            'property_id': pid,
            'quick_cmd': './check %s --tier quick' % pid,
            'thorough_cmd': './check %s --tier thorough' % pid,
            'evidence_file': '/verif/evidence/%s.json' % pid,
            'replay_cmd_template': './check --replay {path}',
            'engine': 'mirdump+cpai',
            'level_claimed': {'category': c['level'], 'text': c['text'], 'design_ref': 'DESIGN.md section ' + c['design']},
            'level_note': c.get('note', TRUST),
            'technique': c['technique'],
        })
    na = []
    for pid in ALL:
        if pid in CHECKS:
            continue
        na.append({'property_id': pid, 'reason': NOT_APPLICABLE.get(pid, 'check not built yet (static-analysis rule under construction; see DESIGN.md section 4)')})
    m = {
        'version': 1,
        'setup_cmd': 'cd /verif/driver && CARGO_NET_OFFLINE=true cargo +nightly build --release --offline',
        'hooks': {
            'guard': 'softposit_verif',
            'enable': 'none needed: the checks read compiler IR of the unmodified crate (no instrumentation); RUSTFLAGS="--cfg softposit_verif" would enable hooks if any existed',
            'baseline_off_cmd': 'cd /repo && cargo test --workspace --no-fail-fast --offline',
            'source_commits': [],
            'add_only': True,
        },
        'engines': [
            {'name': 'mirdump', 'path': '/verif/driver', 'serves_properties': sorted(CHECKS), 'kind_free_text': 'rustc_private driver extracting MIR, resolved callees, constants, impl table as JSON facts (static; never runs the crate)'},
            {'name': 'cpai', 'path': '/verif/sa', 'serves_properties': sorted(CHECKS), 'kind_free_text': 'Python abstract interpreter over the extracted MIR (interval x known-bits x symbolic-bit x term domains, cell partitioning) plus structural rules'},
            {'name': 'spec', 'path': '/verif/sa/spec.py', 'serves_properties': sorted(CHECKS), 'kind_free_text': 'exact rational specification oracle for posit/float/integer rounding'},
        ],
        'checks': checks,
        'not_applicable': na,
        'notes': 'Static analysis only. Each check re-extracts facts from /repo\'s current working tree into a fresh temporary target dir. Known findings: /verif/known_findings.txt. The cell rules have a soft wall-clock budget (VERIF_SOFT_BUDGET_S, default 900 s quick / 10800 s thorough): cells not reached within it are reported as not decided, never as alarms.',
    }
    with open(os.path.join(HERE, 'MANIFEST.json'), 'w') as f:
        json.dump(m, f, indent=1)
    print('checks:', [c['property_id'] for c in checks], 'n/a:', len(na))


if __name__ == '__main__':
    main()
