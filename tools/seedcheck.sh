#!/bin/bash
# usage: seedcheck.sh <seed-id> <out-dir-with patch.diff demo.rs meta.json> <PROP> [more props]
# confirms a seeded change (existing tests pass, demo fails with / passes without), then runs the named checks against it.
set -uo pipefail
ID="$1"; SRC="$2"; shift 2; PROPS="$@"
W=$(mktemp -d /tmp/seedchk.XXXXXX); trap 'rm -rf "$W"' EXIT
git -C /repo archive HEAD | tar -x -C "$W"; cp /repo/Cargo.lock "$W"/ 2>/dev/null
mkdir -p "$W/tests"; cp "$SRC/demo.rs" "$W/tests/demo.rs"
cd "$W"
BASE=$(CARGO_TARGET_DIR=$W/target cargo test --offline --features rand --test demo 2>&1 | grep -E "^test result" | head -1)
if ! git apply --check "$SRC/patch.diff" 2>/dev/null && ! patch -p1 --dry-run -s < "$SRC/patch.diff" >/dev/null 2>&1; then echo "$ID: PATCH DOES NOT APPLY to current HEAD"; exit 3; fi
patch -p1 -s < "$SRC/patch.diff" || exit 3
BUILD=$(CARGO_TARGET_DIR=$W/target cargo build --offline --features std,rand,linalg 2>&1 | grep -cE "^error")
WITH=$(CARGO_TARGET_DIR=$W/target cargo test --offline --features rand --test demo 2>&1 | grep -E "^test result" | head -1)
rm -rf "$W/tests"
SUITE=$(CARGO_TARGET_DIR=$W/target cargo test --offline --lib 2>&1 | grep -E "^test result" | head -1)
echo "$ID: demo on HEAD: $BASE"
echo "$ID: demo with change: $WITH"
echo "$ID: build errors: $BUILD ; existing suite with change: $SUITE"
rm -rf "$W/target"
for P in $PROPS; do
  OUT=$(cd /verif && VERIF_REPO="$W" VERIF_NO_EVIDENCE=1 VERIF_REPLAY_DIR=$W/replay ./check "$P" 2>&1); RC=$?
  echo "$ID: check $P rc=$RC violations=$(echo "$OUT" | grep -c '^VIOLATION')"
  echo "$OUT" | grep '^FINDING' | cut -c1-330 | head -${SHOW:-3}
done
