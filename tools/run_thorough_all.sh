#!/bin/bash
# runs every thorough command once (3 at a time) and prints one summary line per property; exit 1 if any check fails
cd "$(dirname "$0")/.."
mkdir -p /tmp/thorough_facts
printf 'C%02d\n' $(seq 1 19) | xargs -P ${JOBS:-3} -I{} sh -c 'VERIF_NO_EVIDENCE=1 ./check {} --tier thorough > /tmp/thorough_{}.log 2>&1; echo "{} rc=$? $(tail -n 1 /tmp/thorough_{}.log)"' | tee /tmp/thorough_summary.txt
grep -q "rc=[^0]" /tmp/thorough_summary.txt && exit 1
exit 0
